#!/venv/bin/python
"""List the `finding:` entries of known_findings.txt that no run reproduced.

usage: tools/stale_findings.py <out files...>     (outputs of ./check runs: quick seeds and thorough tiers)
An entry is 'seen' when a run printed `KNOWN-FINDING: ... [<its signature>]`.  Entries never seen in any of the given outputs
are printed; they are candidates for removal (a finding that no longer reproduces suppresses nothing useful and could hide
a different defect with the same signature)."""
import re
import sys

sys.path.insert(0, "/verif")
from harness import core  # noqa: E402

seen = set()
for p in sys.argv[1:]:
    for line in open(p, errors="replace"):
        if line.startswith("KNOWN-FINDING:"):
            line = line.rstrip()
            k = line.rfind(" [")
            if k >= 0 and line.endswith("]"):
                seen.add(line[k + 2:-1])       # (signatures may themselves contain brackets)
n = 0
for f in core.load_findings():
    if f["signature"] not in seen:
        n += 1
        print("STALE? property=%s signature=%s" % (f["property"], f["signature"]))
print("%d of %d finding entries not reproduced in %d output files" % (n, len(core.load_findings()), len(sys.argv) - 1))
