#!/bin/bash
# usage: tools/new_round.sh <root dir outside /repo and /verif, e.g. /tmp/mut4> [props...]
# creates one scratch worktree of /repo HEAD and one prompt file per property (the sub-agent is told to read <root>/<id>.prompt.txt)
root=$1; shift
props=${@:-C01 C02 C03 C04 C05 C06 C07 C08 C09 C10 C11 C12 C13 C14 C15 C16 C17 C18 C19 C20}
mkdir -p $root
for p in $props; do
  git -C /repo worktree add --detach $root/$p HEAD > /dev/null 2>&1
  /venv/bin/python - <<PY
import json
tmpl = open('/verif/tools/mutation_prompt.tmpl').read()
for l in open('/verif/properties.jsonl'):
    p = json.loads(l)
    if p["id"] == "$p":
        txt = "%s - %s\n\n%s\n\nQuantifier: %s" % (p["id"], p["title"], p["statement"], p["quantifier"]["text"])
        open('$root/$p.prompt.txt', 'w').write(tmpl.replace("@ROOT@", "$root").replace("@ID@", "$p").replace("@PROP@", txt))
PY
done
ls $root/*.prompt.txt | wc -l
