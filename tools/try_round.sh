#!/bin/bash
# usage: tools/try_round.sh <root dir with <prop>/_out/<X>/patch.diff> <prop>...  -- runs the property's quick check against every mutation of that property
root=$1; shift
for p in "$@"; do
  for d in $root/$p/_out/*/; do
    m=$(basename $d); [ -f $d/patch.diff ] || continue
    echo "== $p $m: $(/verif/tools/try_mutation.sh $d/patch.diff $p | grep -v '^KNOWN' | head -2 | tr '\n' ' ')"
  done
done
