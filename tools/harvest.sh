#!/bin/bash
# usage: tools/harvest.sh <prop> <tier> <seed>...   -- collects proposed finding lines (new signatures only) over several value seeds
prop=$1; tier=$2; shift 2
: > .work/harvest_$prop.txt
for s in "$@"; do
  VERIF_SEED=$s VERIF_PROPOSE=1 ./check $prop --tier $tier > .work/harvest_$prop.$s.out 2>&1
  tail -1 .work/harvest_$prop.$s.out | cut -c1-200
  cat .work/proposed_findings_$prop.txt >> .work/harvest_$prop.txt 2>/dev/null
done
sort -u -t' ' -k3,3 .work/harvest_$prop.txt > .work/harvest_$prop.uniq.txt; wc -l .work/harvest_$prop.uniq.txt
