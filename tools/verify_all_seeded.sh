#!/bin/bash
# confirms every seeded change (demo passes on the unchanged tree, fails with the patch, repository suite passes with the patch) and then runs the
# property's quick check against it
cd /verif
: > .work/seeded_summary.txt
for p in C01 C02 C03 C04 C05 C06 C07 C08 C09 C10 C11 C12 C13 C14 C15 C16 C17 C18 C19 C20; do
  src=/tmp/mut/$p/_out
  [ -d $src ] || continue
  /venv/bin/python tools/verify_seeded.py $src $p >> .work/verify_seeded2.log 2>&1
  for m in A B; do
    f=/verif/seeded/$p-$m/patch.diff
    [ -f $f ] || continue
    conf=$(/venv/bin/python -c "import json; print(json.load(open('/verif/seeded/$p-$m/meta.json')).get('confirmed'))")
    out=$(tools/try_mutation.sh $f $p | head -2 | tr '\n' ' ')
    echo "$p-$m confirmed=$conf check: $out" >> .work/seeded_summary.txt
  done
done
touch .work/seeded_done
