#!/bin/bash
# usage: tools/try_mutation.sh <patch.diff> <property> [tier]   -- applies a seeded change to /repo, runs the check, reverts
set -u
patch=$1; prop=$2; tier=${3:-quick}
cd /repo || exit 2
if ! git diff --quiet; then echo "/repo has uncommitted changes"; exit 2; fi
git apply "$patch" || { echo "patch does not apply"; exit 2; }
cd /verif && ./check "$prop" --tier "$tier" > ".work/mut.$prop.out" 2>&1; rc=$?
git -C /repo checkout -- .
echo "exit=$rc"; grep -c '^VIOLATION' ".work/mut.$prop.out"; grep -A2 '^VIOLATION' ".work/mut.$prop.out" | head -7 | cut -c1-300; tail -1 ".work/mut.$prop.out" | cut -c1-250
