#!/bin/bash
# usage: tools/try_benign.sh <dir with R*/patch.diff> [props...]  -- applies ALL patches of a benign-refactor set, runs the quick checks, reverts
set -u
src=$1; shift
props=${@:-C01 C02 C03 C04 C05 C06 C07 C08 C09 C10 C11 C12 C13 C14 C15 C16 C17 C18 C19 C20}
cd /repo || exit 2
if ! git diff --quiet; then echo "/repo has uncommitted changes"; exit 2; fi
# (a refactor that no longer applies because a later fix: commit rewrote the same lines is skipped and named)
for p in $src/R*/patch.diff ${src}-R*/patch.diff; do [ -f "$p" ] || continue; git apply "$p" 2>/dev/null || echo "skipped (no longer applies to HEAD): $p"; done
cd /verif
for p in $props; do
  ./check $p > .work/ben.$p.out 2>&1; rc=$?
  echo "$p rc=$rc $(grep -c '^VIOLATION' .work/ben.$p.out) $(grep -m2 'signature:' .work/ben.$p.out | tr '\n' ' ' | cut -c1-200)"
done
git -C /repo checkout -- .
