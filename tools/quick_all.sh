#!/bin/bash
# usage: tools/quick_all.sh <seed>...  -- runs every quick check for each seed and prints one line per (seed, property)
cd /verif
for s in "$@"; do
  for p in C01 C02 C03 C04 C05 C06 C07 C08 C09 C10 C11 C12 C13 C14 C15 C16 C17 C18 C19 C20; do
    VERIF_SEED=$s VERIF_PROPOSE=1 ./check $p > .work/q_$p.$s.out 2>&1; rc=$?
    cp .work/proposed_findings_$p.txt .work/q_$p.$s.txt 2>/dev/null
    echo "seed=$s $p rc=$rc $(tail -1 .work/q_$p.$s.out | sed 's/.*evaluations, //' | cut -c1-80)"
  done
done
