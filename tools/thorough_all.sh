#!/bin/bash
# usage: tools/thorough_all.sh [props...]  -- runs the thorough tier of each check with VERIF_PROPOSE=1 and keeps the proposals
cd /verif
props=${@:-C01 C02 C04 C05 C06 C07 C08 C09 C10 C11 C12 C13 C14 C15 C16 C17 C18 C19 C20 C03}
: > .work/thorough_summary.txt
for p in $props; do
  VERIF_PROPOSE=1 ./check $p --tier thorough > .work/thorough_$p.out 2>&1; rc=$?
  cp .work/proposed_findings_$p.txt .work/thorough_proposed_$p.txt 2>/dev/null
  echo "$p rc=$rc $(tail -1 .work/thorough_$p.out | cut -c1-200)" >> .work/thorough_summary.txt
done
touch .work/thorough_all_done
