#!/venv/bin/python
"""Confirm seeded mutations in a scratch worktree of /repo (outside /repo and /verif) and store them under /verif/seeded/.
usage: tools/verify_seeded.py <src_dir with A/ B/ ...> <property> [names...]"""
import json, os, shutil, subprocess, sys, time

src, prop = sys.argv[1], sys.argv[2]
names = sys.argv[3:] or sorted(d for d in os.listdir(src) if os.path.isfile(os.path.join(src, d, "patch.diff")))
WT = "/tmp/mutverify_%s%s" % (prop, os.environ.get("SEEDED_SUFFIX", ""))
def sh(cmd, cwd=None, timeout=3600):
    p = subprocess.run(cmd, shell=True, cwd=cwd, capture_output=True, text=True, timeout=timeout)
    return p.returncode, (p.stdout + p.stderr)
subprocess.run("git -C /repo worktree remove --force %s" % WT, shell=True, capture_output=True)
rc, out = sh("git -C /repo worktree add --detach %s HEAD" % WT)
assert rc == 0, out
try:
    for n in names:
        d = os.path.join(src, n)
        dst = "/verif/seeded/%s-%s%s" % (prop, n, os.environ.get("SEEDED_SUFFIX", ""))
        meta = dict(property=prop, source="independent sub-agent given only the property text and a scratch worktree", ran=[])
        rc, out = sh("git apply --check %s/patch.diff" % d, cwd=WT)
        meta["applies_to_head"] = rc == 0
        if rc != 0:
            meta["note"] = "patch no longer applies to /repo HEAD: " + out[-300:]
        else:
            # the demo is run from a copy inside the scratch worktree (<root>/_out/<name>/demo.py): demos locate "their" library relative to themselves
            shutil.rmtree(os.path.join(WT, "_out", n), ignore_errors=True)
            shutil.copytree(d, os.path.join(WT, "_out", n))
            demo = "OMP_NUM_THREADS=2 PYTHONPATH=%s /venv/bin/python _out/%s/demo.py" % (WT, n)
            rc0, o0 = sh(demo, cwd=WT, timeout=1800)
            sh("git apply %s/patch.diff" % d, cwd=WT)
            rc1, o1 = sh(demo, cwd=WT, timeout=1800)
            t0 = time.time()
            rct, ot = sh("OMP_NUM_THREADS=1 /venv/bin/python -m pytest -q -p no:cacheprovider -x -n 12 test 2>&1 | tail -3", cwd=WT, timeout=7200)
            sh("git checkout -- .", cwd=WT)
            shutil.rmtree(os.path.join(WT, "_out"), ignore_errors=True)
            meta["ran"] = [dict(cmd="demo on unchanged tree", exit=rc0), dict(cmd="demo with patch", exit=rc1, tail=o1[-300:]),
                           dict(cmd="pytest -n 10 test (with patch)", tail=ot[-200:], wall_s=round(time.time() - t0))]
            meta["confirmed"] = (rc0 == 0 and rc1 != 0 and " passed" in ot and "failed" not in ot)
        os.makedirs(dst, exist_ok=True)
        for f in ("patch.diff", "demo.py", "notes.md"):
            if os.path.exists(os.path.join(d, f)):
                shutil.copy(os.path.join(d, f), dst)
        notes = open(os.path.join(d, "notes.md")).read() if os.path.exists(os.path.join(d, "notes.md")) else ""
        meta["needs_to_manifest"] = notes[:1500]
        json.dump(meta, open(os.path.join(dst, "meta.json"), "w"), indent=1)
        print(prop, n, "confirmed" if meta.get("confirmed") else meta, flush=True)
finally:
    subprocess.run("git -C /repo worktree remove --force %s" % WT, shell=True, capture_output=True)
