"""C01 - every operator acts exactly as the dense matrix it represents.

TLC (spec/MC_C01.tla) enumerates class x size x batch x nesting x dtype, checks the S-layer invariants and prints
one behaviour per case with the exact expected observation of every step; the behaviours are replayed into the real
library and compared after every step.
"""
import copy

from .. import core, tlc
from ..actions import run_behaviour
from ..bind import class_path

PROP = "C01"


def _site(beh, mm):
    return "%s|%s|%s|%s" % (PROP, mm["act"], beh["desc"]["cls"], core.failure_kind(mm))


def _replay(beh):
    r = run_behaviour(beh, check_dtype=False)  # dtype of results is property C14
    r["id"] = beh["desc"]["id"]
    return r


def canary(beh):
    """binding sensitivity: corrupt one expected entry -> the replay must reject"""
    b = copy.deepcopy(beh)
    for st in b["steps"]:
        if st["act"] == "matmul":
            st["expect"]["data"][0] += 1
            break
    r = run_behaviour(b)
    if not any(m["act"] == "matmul" for m in r["mismatches"]):
        raise core.MachineryError("canary: corrupted expectation was not rejected")
    b = copy.deepcopy(beh)
    b["steps"][0]["expect"]["shape"] = b["steps"][0]["expect"]["shape"] + [1]
    if not run_behaviour(b)["mismatches"]:
        raise core.MachineryError("canary: corrupted shape was not rejected")


def run(tier, seed):
    res = core.Result(PROP, tier, seed)
    nparts = 8
    r = tlc.run_sharded("MC_C01", "c01." + tier, nparts, dict(Tier=tier, Seed=seed, ValSeed=seed),
                        invariants=["InvSize", "InvRequestedShape", "InvPsd"], timeout=3000)
    res.add_tlc("MC_C01", r)
    if r["violated"]:
        raise core.MachineryError("spec invariant %s violated in MC_C01 (specification self-consistency):\n%s"
                                  % (r["violated"], r["text"][-2000:]))
    behs = r["out"]
    if not behs:
        raise core.MachineryError("TLC produced no behaviours")
    canary(behs[0])
    outs = core.pmap(_replay, behs)
    maxerr = 0.0
    for beh, o in zip(behs, outs):
        res.evaluations += o["obs"]
        res.traces += 1
        maxerr = max(maxerr, o["maxerr"])
        res.nontrivial.add((class_path(beh["term"]), tuple(beh["desc"]["b"]), tuple(beh["desc"]["mn"]), beh["desc"]["dt"]))
        for mm in o["mismatches"]:
            res.violation(_site(beh, mm), "%s step %d (%s): %s  [%s batch=%s dt=%s]" % (
                class_path(beh["term"]), mm["step"], mm["act"], mm["msg"], beh["desc"]["mn"], beh["desc"]["b"],
                beh["desc"]["dt"]), dict(behaviour=beh, mismatch=mm))
    res.samples = [dict(desc=b["desc"], path=b["path"], steps=[dict(act=s["act"], arg_shape=(s["arg"] or {}).get("shape") if isinstance(s["arg"], dict) else None,
                                                                    expect_shape=s["expect"].get("shape")) for s in b["steps"]])
                   for b in behs[:3]]
    res.rule = ("cases enumerated exhaustively by TLC over class x matrix size x batch shape x nesting depth x dtype (values "
                "sampled by seeded palettes); a case is one behaviour of 12 actions; distinct = distinct (class path, batch, "
                "size, dtype); all are non-trivial (each compares dense values)")
    res.exhaustive = True
    res.notes["max_relative_error_observed"] = maxerr
    res.assumptions = ["values are sampled (small integers, exact in float32/64); structural space is exhaustive within bounds",
                       "CUDA / KeOps not covered"]
    return res
