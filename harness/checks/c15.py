"""C15 - torch.* dispatch on operators matches the methods, in either argument order (spec/MC_C15.tla).

The live registration tables (_HANDLED_FUNCTIONS / _HANDLED_SECOND_ARG_FUNCTIONS) are extracted from the module and handed to TLC,
which checks them against the dispatch table of the specification and enumerates entry x class x operand order x operand kind with
the exact expected dense result; the replay calls torch.f(op, ...), torch.f(tensor, op), tensor <binop> op and the corresponding
method and compares all of them with the expectation (factorizations relationally against the exact matrix).  Unregistered
functions must raise NotImplementedError.
"""
import copy

import torch

from .. import bind, core, numeric, tlc
from ..actions import judge

PROP = "C15"


def live_tables():
    from linear_operator.operators import _linear_operator as L

    first = set()
    for f in L._HANDLED_FUNCTIONS:
        first.add(getattr(f, "__name__", str(f)))
    second = set()
    for f in L._HANDLED_SECOND_ARG_FUNCTIONS:
        q = getattr(f, "__qualname__", "") or ""
        name = getattr(f, "__name__", str(f))
        second.add(("Tensor." if q.startswith("TensorBase") else "torch.") + name)
    return first, second


def _group(lines):
    heads, steps = {}, {}
    for ln in lines:
        (heads.__setitem__(ln["id"], ln) if ln.get("k") == 0 else steps.setdefault(ln["id"], []).append(ln))
    out = []
    for i, h in sorted(heads.items()):
        st = sorted(steps.get(i, []), key=lambda x: (x["kind"], x["func"], x["variant"]))
        if len(st) != h["total"]:
            raise core.MachineryError("incomplete behaviour %s" % i)
        out.append(dict(h, steps=st))
    return out


def _relational(func, res, A, B, dtype, variant, op):
    Ad = A.to(torch.float64)
    t = numeric.tol(dtype, "direct") * 50
    n = A.shape[-1]
    eye = torch.eye(n, dtype=torch.float64).expand_as(Ad)

    def close(X, Y, what):
        e = numeric.rel_err(numeric.dense(X).to(torch.float64), Y)
        return None if e <= t else "%s: relative error %.3g" % (what, e)

    if func == "logdet":
        return close(res, torch.logdet(Ad), "torch.logdet(op) != log|A|")
    if func == "linalg_solve":
        return close(Ad @ res.to(torch.float64), B.to(torch.float64).expand(*Ad.shape[:-2], *B.shape[-2:]), "torch.linalg.solve(op, B): A X != B")
    if func == "inverse":
        return close(Ad @ numeric.dense(res).to(torch.float64), eye, "torch.inverse(op): A R != I")
    if func == "linalg_cholesky":
        L = numeric.dense(res).to(torch.float64)
        if not torch.equal(torch.tril(L), L):
            return "torch.linalg.cholesky(op) is not lower triangular"
        return close(L @ L.mT, Ad, "torch.linalg.cholesky(op): L L^T != A")
    if func == "linalg_eigh":
        w, Q = res
        Q = numeric.dense(Q).to(torch.float64)
        return close(Q.mT @ Q, eye, "eigh: Q^T Q != I") or close(Q @ torch.diag_embed(w.to(torch.float64)) @ Q.mT, Ad, "eigh: Q diag(w) Q^T != A")
    if func == "linalg_eigvalsh":
        return close(res.to(torch.float64).sort(-1)[0], torch.linalg.eigvalsh(Ad), "eigvalsh != eigenvalues of A")
    if func == "linalg_svd":
        U, S, Vt = res
        U, Vt = numeric.dense(U).to(torch.float64), numeric.dense(Vt).to(torch.float64)
        return close(U @ torch.diag_embed(S.to(torch.float64)) @ Vt, Ad, "torch.linalg.svd(op): U diag(S) Vh != A")
    if func == "linalg_solve_triangular":
        X = res.to(torch.float64)
        Bd = B.to(torch.float64)
        return close(Ad @ X if variant == 1 else X @ Ad, Bd.expand(*Ad.shape[:-2], *Bd.shape[-2:]), "solve_triangular: A X != B")
    if func in ("abs", "sqrt"):
        return close(res, getattr(torch, func)(Ad), "torch.%s(op) != torch.%s(dense)" % (func, func)) or \
            close(getattr(op, func)(), getattr(torch, func)(Ad), "op.%s() != torch.%s(dense)" % (func, func))
    if func in ("exp", "log"):
        # the diagonal classes document exp / log as acting on the diagonal (matrix function): compared with the method and on the diagonal
        d = Ad.diagonal(dim1=-2, dim2=-1)
        return close(numeric.dense(res).diagonal(dim1=-2, dim2=-1), getattr(torch, func)(d), "torch.%s(op) diagonal" % func) or \
            close(numeric.dense(res), numeric.dense(getattr(op, func)()).to(torch.float64), "torch.%s(op) != op.%s()" % (func, func))
    raise KeyError(func)


def _calls(op, st, dtype, upper):
    """-> list of (label, value)"""
    import linear_operator

    f, v, kind = st["func"], st["variant"], st["kind"]
    X = bind.tensor(st["arg"], dtype)
    if kind == "first":
        if f in ("add", "sub"):
            Y = linear_operator.to_linear_operator(X) if v == 3 else X
            return [("torch.%s(op, X)" % f, getattr(torch, f)(op, Y)), ("op.%s(X)" % f, getattr(op, f)(Y))]
        if f == "mul" and v >= 3:
            return [("torch.mul(op, X)", torch.mul(op, X)), ("op.mul(X)", op.mul(X)), ("op * X", op * X)]
        if f in ("mul", "div"):
            c = float(X) if v == 1 else X
            return [("torch.%s(op, c)" % f, getattr(torch, f)(op, c)), ("op.%s(c)" % f, getattr(op, f)(c))]
        if f == "matmul":
            return [("torch.matmul(op, X)", torch.matmul(op, X)), ("op.matmul(X)", op.matmul(X))]
        if f == "matmul_op":
            other = bind.build(st["argterm"], dtype)
            return [("torch.matmul(op, other)", torch.matmul(op, other)), ("op @ other", op @ other)]
        if f == "op_matmul":
            other = bind.build(st["argterm"], dtype)
            return [("torch.matmul(other, op)", torch.matmul(other, op)), ("other @ op", other @ op)]
        if f == "isclose_nan":
            # the same NaN on both sides (dense classes only: structured classes cannot hold an arbitrary NaN entry)
            from linear_operator.operators import DenseLinearOperator

            if not isinstance(op, DenseLinearOperator):
                return []
            Xn = X.clone()
            Xn.reshape(-1)[1] = float("nan")
            opn = DenseLinearOperator(Xn.clone())
            return [("torch.isclose(op, X, equal_nan=True)", torch.isclose(opn, Xn, equal_nan=True).to(dtype)),
                    ("torch.isclose(X, op, equal_nan=True)", torch.isclose(Xn, opn, equal_nan=True).to(dtype)),
                    ("op.isclose(X, equal_nan=True)", opn.isclose(Xn, equal_nan=True).to(dtype))]
        if f == "isclose":
            return [("torch.isclose(op, X, 0.0, 0.5)", torch.isclose(op, X, 0.0, 0.5).to(dtype)),
                    ("torch.isclose(op, X, rtol=0.0, atol=0.5)", torch.isclose(op, X, rtol=0.0, atol=0.5).to(dtype))]
        if f == "diagonal":
            return [("torch.diagonal(op, dim1=-2, dim2=-1)", torch.diagonal(op, dim1=-2, dim2=-1)), ("op.diagonal()", op.diagonal())]
        if f == "clone":
            return [("torch.clone(op)", torch.clone(op)), ("op.clone()", op.clone())]
        if f == "numel":
            return [("torch.numel(op)", torch.tensor(torch.numel(op), dtype=dtype)), ("op.numel()", torch.tensor(op.numel(), dtype=dtype))]
        if f == "transpose":
            return [("torch.transpose(op, -1, -2)", torch.transpose(op, -1, -2)), ("op.transpose(-1, -2)", op.transpose(-1, -2))]
        if f == "unsqueeze":
            return [("torch.unsqueeze(op, 0)", torch.unsqueeze(op, 0)), ("op.unsqueeze(0)", op.unsqueeze(0))]
        if f in ("sum_m1", "sum_m2", "sum_b"):
            d = {"sum_m1": -1, "sum_m2": -2, "sum_b": 0}[f]
            return [("torch.sum(op, %d)" % d, torch.sum(op, d)), ("op.sum(%d)" % d, op.sum(d))]
        if f == "prod":
            return [("torch.prod(op, 0)", torch.prod(op, 0)), ("op.prod(0)", op.prod(0))]
        if f == "permute":
            return [("torch.permute(op, (0, 1, 2))", torch.permute(op, (0, 1, 2))), ("op.permute(0, 1, 2)", op.permute(0, 1, 2))]
        if f == "squeeze":
            return [("torch.squeeze(op, 0)", torch.squeeze(op, 0)), ("op.squeeze(0)", op.squeeze(0))]
    if kind == "second":
        c = X
        if f == "torch.isclose":
            return [("torch.isclose(X, op, 0.0, 0.5)", torch.isclose(X, op, 0.0, 0.5).to(dtype)),
                    ("torch.isclose(X, op, rtol=0.0, atol=0.5)", torch.isclose(X, op, rtol=0.0, atol=0.5).to(dtype))]
        if f == "torch.add":
            return [("torch.add(X, op)", torch.add(X, op))]
        if f == "Tensor.add":
            return [("X + op", X + op), ("X.add(op)", X.add(op))]
        if f == "torch.sub":
            return [("torch.sub(X, op)", torch.sub(X, op))]
        if f == "Tensor.sub":
            return [("X - op", X - op), ("X.sub(op)", X.sub(op))]
        if f == "torch.mul":
            return [("torch.mul(c, op)", torch.mul(c, op))]
        if f == "Tensor.mul":
            return [("c * op", c * op), ("c.mul(op)", c.mul(op))]
        if f == "torch.matmul":
            return [("torch.matmul(X, op)", torch.matmul(X, op))]
        if f == "Tensor.matmul":
            return [("X @ op", X @ op), ("X.matmul(op)", X.matmul(op))]
    raise KeyError((kind, f))


REL = {"logdet", "linalg_solve", "inverse", "linalg_cholesky", "linalg_eigh", "linalg_eigvalsh", "linalg_svd", "linalg_solve_triangular",
       "abs", "sqrt", "exp", "log"}


def _replay(beh):
    dtype = bind.DT[beh["desc"]["dt"]]
    fails = []
    try:
        op = bind.build(beh["term"], dtype)
    except Exception as e:  # noqa
        return [("construct", 0, "raised %s" % type(e).__name__)]
    A = bind.tensor(beh["dense"], torch.float64)
    upper = bool(beh["term"]["ks"][0]) if beh["term"]["cls"] in ("Tri", "KronTri") else False
    for st in beh["steps"]:
        f, kind, v = st["func"], st["kind"], st["variant"]
        try:
            if kind == "scalar_precision":
                s = 1e-50 if f == "tiny" else 0.1
                A64 = A.to(torch.float64)
                call, ref = {"torch.mul": (lambda: torch.mul(op, s), A64 * s), "torch.mul_second": (lambda: torch.mul(s, op), A64 * s),
                             "torch.div": (lambda: torch.div(op, 1.0 / 0.1), A64 / (1.0 / 0.1)), "tiny": (lambda: op * s, A64 * s)}[f]
                if f == "tiny" and dtype != torch.float64:
                    continue
                got = call()
                got = got.to_dense() if hasattr(got, "to_dense") else got
                if got.dtype != dtype:
                    fails.append((f, v, "scalar product of a %s operator has dtype %s" % (dtype, got.dtype)))
                err = float((got.to(torch.float64) - ref).abs().max()) / max(1e-300, float(ref.abs().max()))
                if not err <= (1e-12 if dtype == torch.float64 else 1e-6):
                    fails.append((f, v, "python scalar %g entered with less than the operator's precision: relative error %.3g" % (s, err)))
                continue
            if kind == "second_refused":
                X = bind.tensor(st["arg"], dtype) + 3.0
                call = {"torch.div": lambda: torch.div(X, op), "torch.linalg.solve": lambda: torch.linalg.solve(X, op), "Tensor.div": lambda: X / op}[f]
                try:
                    call()
                    fails.append((f, v, "%s(Tensor, op) returned a result although the function is registered for the operator as first operand only" % f))
                except (NotImplementedError, TypeError):
                    pass
                except Exception as e:  # noqa
                    fails.append((f, v, "%s(Tensor, op) raised %s instead of NotImplementedError / TypeError" % (f, type(e).__name__)))
                continue
            if kind == "unregistered":
                args = {"cumsum": (0,), "flip": ((0,),)}.get(f, ())
                try:
                    getattr(torch, f)(op, *args)
                    fails.append((f, v, "torch.%s(op) returned instead of raising NotImplementedError" % f))
                except NotImplementedError:
                    pass
                except Exception as e:  # noqa
                    fails.append((f, v, "torch.%s(op) raised %s instead of NotImplementedError" % (f, type(e).__name__)))
                continue
            if f in REL:
                B = bind.tensor(st["arg"], dtype)
                if f == "linalg_solve":
                    res = torch.linalg.solve(op, B)
                elif f == "linalg_solve_triangular":
                    res = torch.linalg.solve_triangular(op, B, upper=upper, left=(v == 1))
                elif f.startswith("linalg_"):
                    res = getattr(torch.linalg, f[len("linalg_"):])(op)
                else:
                    res = getattr(torch, f)(op)
                m = _relational(f, res, A, B, dtype, v, op)
                if m:
                    fails.append((f, v, m))
                continue
            for label, got in _calls(op, st, dtype, upper):
                msg, err = judge(st["expect"], label, got, dtype, loose=5.0, check_dtype=False)
                if msg:
                    fails.append((f, v, msg))
                    break
        except NotImplementedError as e:
            # an explicit not-implemented error is consistent dispatch iff the method itself declares the operation unsupported
            meth = {"linalg_solve": "solve", "linalg_cholesky": "cholesky", "linalg_eigh": "eigh", "linalg_eigvalsh": "eigvalsh",
                    "linalg_svd": "svd", "linalg_solve_triangular": "solve_triangular"}.get(f, f)
            try:
                if meth == "solve_triangular":
                    op.solve_triangular(bind.tensor(st["arg"], dtype), upper=upper, left=(v == 1))
                elif meth == "solve":
                    op.solve(bind.tensor(st["arg"], dtype))
                elif hasattr(op, meth) and kind == "first" and f in REL:
                    getattr(op, meth)()
                else:
                    raise RuntimeError("no method counterpart")
                fails.append((f, v, "torch function raised NotImplementedError but the method works: " + str(e)[:100]))
            except NotImplementedError:
                pass
            except Exception:  # noqa
                from ..replay import exc_summary

                fails.append((f, v, "raised " + exc_summary(e)))
        except Exception as e:  # noqa
            from ..replay import exc_summary

            fails.append((f, v, "raised " + exc_summary(e)))
    return fails


def _generic_unknown(name, is_first, beh):
    """an entry registered in the live table that the spec does not list: torch.<name>(X, op) / (op, X) must equal torch.<name> on the dense matrix"""
    dtype = torch.float64
    op = bind.build(beh["term"], dtype)
    A = bind.tensor(beh["dense"], dtype)
    X = A + 1.0
    f = getattr(torch, name, None)
    if f is None:
        return "gap"
    try:
        ref = f(A, X) if is_first else f(X, A)
    except Exception:
        return "gap"
    try:
        got = numeric.dense(f(op, X) if is_first else f(X, op)).to(dtype)
    except Exception as e:  # noqa
        return None if isinstance(e, NotImplementedError) else "torch.%s raised %s" % (name, type(e).__name__)
    if got.shape == ref.shape:
        mask = torch.isfinite(ref)
        got, ref = torch.where(mask, got, torch.zeros_like(got)), torch.where(mask, ref, torch.zeros_like(ref))
    if got.shape != ref.shape or not numeric.rel_err(got, ref) <= 1e-8:
        return "torch.%s(%s) with the operator as %s operand differs from torch.%s on the dense matrix (relative error %.3g)" % (
            name, "op, X" if is_first else "X, op", "first" if is_first else "second", name, numeric.rel_err(got, ref) if got.shape == ref.shape else float("inf"))
    return None


def run(tier, seed):
    res = core.Result(PROP, tier, seed)
    first, second = live_tables()
    r = tlc.run_sharded("MC_C15", "c15." + tier, 8, dict(Tier=tier, Seed=seed, ValSeed=seed, LiveFirst=first, LiveSecond=second), timeout=3000)
    res.add_tlc("MC_C15", r)
    behs = _group(r["out"])
    # table checks (TLC evaluates them as ASSUME-like constants; evaluated here from the same sets for the verdict text)
    rt = tlc.run("MC_C15", "c15.table", constants=dict(Tier=tier, Seed=seed, ValSeed=seed, Part=0, NParts=64, LiveFirst=first, LiveSecond=second),
                 invariants=["TableComplete", "TableKnown"], workers=2, timeout=600, heap="2g")
    if rt["violated"] == "TableComplete":
        res.violation("C15|registration-table|missing", "a function named by the property is no longer registered: live first-arg table %s, second-arg %s"
                      % (sorted(first), sorted(second)), dict(first=sorted(first), second=sorted(second)))
    elif rt["violated"] == "TableKnown":
        # a registration the specification does not know: decide it generically against torch on the dense matrix
        spec_first = {"abs", "add", "linalg_cholesky", "clone", "diagonal", "div", "linalg_eigh", "linalg_eigvalsh", "exp", "inverse", "isclose", "log",
                      "logdet", "matmul", "mul", "numel", "permute", "prod", "linalg_solve", "linalg_solve_triangular", "sqrt", "squeeze", "sub",
                      "sum", "linalg_svd", "transpose", "unsqueeze"}
        spec_second = {"torch.add", "torch.isclose", "torch.mul", "torch.matmul", "Tensor.matmul", "Tensor.mul", "Tensor.add", "Tensor.sub", "torch.sub"}
        for name in sorted((first - spec_first) | {n.split(".", 1)[1] for n in (second - spec_second)}):
            msg = _generic_unknown(name, name in first - spec_first, behs[0])
            if msg == "gap":
                raise core.MachineryError("coverage gap: live dispatch entry %r is unknown to the specification and cannot be decided generically" % name)
            if msg:
                res.violation("C15|%s|newly-registered|wrong-value" % name, msg, dict(name=name))
    b0 = copy.deepcopy(behs[0])
    st = next(s for s in b0["steps"] if s["func"] == "matmul" and s["kind"] == "first")
    st["expect"]["data"][0] += 1
    b0["steps"] = [st]
    if not _replay(b0):
        raise core.MachineryError("canary: corrupted expectation was not rejected")
    outs = core.pmap(_replay, behs, chunksize=1)
    for beh, fails in zip(behs, outs):
        res.traces += 1
        res.evaluations += len(beh["steps"])
        for s in beh["steps"]:
            res.nontrivial.add((beh["desc"]["cls"], tuple(beh["desc"]["b"]), s["kind"], s["func"], s["variant"]))
        for f, v, msg in fails:
            kind = core.failure_kind(dict(kind="raised" if msg.startswith("raised") else "value", msg=msg))
            sig = "%s|%s|%s|%s" % (PROP, f, beh["desc"]["cls"], kind)
            st = next((s for s in beh["steps"] if s["func"] == f and s["variant"] == v), None)
            res.violation(sig, "%s batch=%s dt=%s %s (variant %s): %s" % (beh["path"], beh["desc"]["b"], beh["desc"]["dt"], f, v, msg),
                          dict(behaviour=dict(beh, steps=[st] if st else [])))
    res.samples = [dict(cls=b["desc"]["cls"], calls=[(s["kind"], s["func"], s["variant"]) for s in b["steps"][:8]]) for b in behs[:2]]
    res.rule = ("every entry of the live first-argument and second-argument dispatch tables x 33 classes x batch x operand kinds (tensor, broadcasting "
                "tensor, python scalar, 0-d tensor, operator, vector / matrix / batched rhs), plus 7 unregistered torch functions; distinct = the tuple")
    res.exhaustive = True
    res.notes["live_first_arg_table"] = sorted(first)
    res.notes["live_second_arg_table"] = sorted(second)
    res.assumptions = ["torch.exp / torch.log on diagonal operators are compared with the method and on the diagonal (the classes document them as matrix functions of a diagonal matrix)"]
    return res


def replay(rec, path):
    if "behaviour" not in rec:
        print(rec.get("msg"))
        return 1
    fails = _replay(rec["behaviour"])
    for f in fails:
        print("  ", f)
    if fails:
        print("VIOLATION property=%s replay=%s" % (PROP, path))
        return 1
    print("now conforms")
    return 0
