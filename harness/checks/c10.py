"""C10 - pivoted Cholesky under-approximates greedily; its preconditioner is exact (spec/LOPivChol.tla, spec/MC_C10.tla).

TLC runs the loop of functions/_pivoted_cholesky.py as a state machine in exact rational arithmetic (state: residual S = A - L L^T per batch
member, pivots, step counter), checks the property's invariants in every state (S PSD, zero on pivot rows / columns, greedy pivots, trace
monotone, exact at full rank, early exit only below the relative tolerance; four slipped variants must be rejected) and prints every terminal
state.  The conformance pass requires what the library returns - L, the permutation, the number of columns - to BE one of those behaviours
(trace acceptance: the pivot prefix of every member is the model's, L L^T = A - S exactly), for every rank bound, tolerance, operator class,
batch and scale; and for K + D that closure / operator / log-determinant of the preconditioner are those of (A - S) + D.
"""
import contextlib
import copy
import json
import math
import warnings

import torch

from .. import bind, core, tlc
from ..replay import exc_summary

PROP = "C10"
INVS = ["InvPsd", "InvZeroOnPivots", "InvGreedy", "InvExactAtFull", "InvRank", "InvEarlyStop"]
VARIANTS = {"first_remaining": "InvGreedy", "absolute_tol": "InvEarlyStop", "any_member": "InvEarlyStop"}


def _approx(beh, q, A):
    """exact A - S of member q as float64"""
    m = beh["members"][q]
    n = A.shape[-1]
    S = torch.tensor([a / b for a, b in zip(m["resid"]["num"], m["resid"]["den"])], dtype=torch.float64).reshape(n, n)
    return A.reshape(-1, n, n)[q] - S


def _borderline(group, tol):
    """a stopping decision that exact arithmetic takes on an equality cannot be demanded from floating point"""
    for beh in group:
        for m in beh["members"]:
            for e in m["errs"]:
                v = e[0] / e[1]
                if abs(v - tol) <= 1e-5 * tol:
                    return True
    return False


def _replay(group):
    """group: all terminal states TLC found for one (instance, k, tol, dmode, ...) -> list of (label, msg)"""
    from linear_operator import settings as S
    import linear_operator

    beh = group[0]
    d = beh["desc"]
    fails = []
    n, k, batch = d["n"], d["k"], list(d["b"])
    tol = d["tol"][0] / d["tol"][1]
    sden = d["sden"]
    for dtype in (torch.float64, torch.float32):
        eps_t = 1e-9 if dtype == torch.float64 else 2e-4
        try:
            A = bind.tensor(beh["dense"], torch.float64)
            op = bind.build(beh["term"], dtype)
            if sden != 1:
                op = type(op)(op.tensor / sden) if beh["term"]["cls"] == "Dense" else op * (1.0 / sden)
            B = max(1, int(torch.tensor(batch).prod())) if batch else 1
            if d["dmode"] == "none":
                label = "pivoted_cholesky[%s]" % ("f64" if dtype == torch.float64 else "f32")
                with contextlib.ExitStack() as st, warnings.catch_warnings():
                    warnings.simplefilter("ignore")
                    if d["id"] % 4 < 2 and d["tolname"] != "default":
                        st.enter_context(S.preconditioner_tolerance(tol))      # the tolerance arrives through the setting
                        etol = None
                    else:
                        etol = None if d["tolname"] == "default" else tol
                    if d["id"] % 2 == 0:
                        L, perm = op.pivoted_cholesky(rank=k, error_tol=etol, return_pivots=True)
                    else:
                        L, perm = linear_operator.pivoted_cholesky(op, rank=k, error_tol=etol, return_pivots=True)
                if list(perm.shape) != batch + [n]:
                    fails.append((label, "permutation has shape %s, expected %s" % (list(perm.shape), batch + [n])))
                    continue
                P = perm.reshape(B, n)
                if not all(sorted(P[q].tolist()) == list(range(n)) for q in range(B)):
                    fails.append((label, "returned pivots are not a permutation of 0..n-1 for every batch member"))
                    continue
                if list(L.shape[:-1]) != batch + [n] or L.dtype != dtype:
                    fails.append((label, "factor has shape %s dtype %s, expected %s x r in %s" % (list(L.shape), L.dtype, batch + [n], dtype)))
                    continue
                r = L.shape[-1]
                Lf = L.to(torch.float64).reshape(B, n, r) * (sden ** 0.5)
                # trace acceptance: is (r, pivots) one of the specification's behaviours?
                match = None
                for cand in group:
                    if cand["r"] != r:
                        continue
                    if all(P[q, :min(r, cand["members"][q]["nvalid"])].tolist() == cand["members"][q]["piv"][:cand["members"][q]["nvalid"]] for q in range(B)):
                        match = cand
                        break
                if match is None:
                    if _borderline(group, tol):
                        continue
                    rs = sorted({c["r"] for c in group})
                    if r not in rs:
                        fails.append((label, "returned %d columns; the loop may leave after %d step(s) at the earliest and at most %d (rank bound %d, tolerance %g)"
                                      % (r, min(c["stopat"] for c in group), max(rs), k, tol)))
                    else:
                        fails.append((label, "pivot order %s is not a greedy order of the residual diagonal (admissible: %s)"
                                      % (P[:, :r].tolist(), [[m["piv"] for m in c["members"]] for c in group][:4])))
                    continue
                for q in range(B):
                    m = match["members"][q]
                    LLt = Lf[q] @ Lf[q].mT
                    if not torch.isfinite(LLt).all():
                        fails.append((label, "non-finite factor%s" % (" (member %d keeps being pivoted on a zero residual while another member has not converged)" % q if m["deg"] else "")))
                        break
                    ref = _approx(match, q, A)
                    scale = max(1.0, float(A.abs().max()))
                    err = float((LLt - ref).abs().max()) / scale
                    if err > eps_t * (100 if m["deg"] else 1):
                        fails.append((label, "L L^T differs from A - S (S = exact Schur complement of the pivots %s) by %.3g" % (m["piv"], err)))
                        break
            else:
                small = bool(d.get("small"))
                if small and dtype != torch.float64:
                    continue
                su = 1e-9 if small else 1.0
                label = "preconditioner[%s%s,%s]" % (d["dmode"], ",small-units" if small else "", "f64" if dtype == torch.float64 else "f32")
                dop = bind.build(beh["dterm"], dtype)
                from linear_operator.operators import AddedDiagLinearOperator, DiagLinearOperator
                Dd = dop.to_dense().to(torch.float64)
                if small:
                    # the same problem in units of 1e-9: compared after scaling back (P / su, su * P^-1, log|P| - n log su)
                    op = type(op)(op.tensor * su) if beh["term"]["cls"] == "Dense" else op * su
                    dop = DiagLinearOperator(dop._diag * su)
                full = AddedDiagLinearOperator(op, dop)
                with contextlib.ExitStack() as st, warnings.catch_warnings(record=True) as wl:
                    warnings.simplefilter("always")
                    st.enter_context(S.max_preconditioner_size(k))
                    st.enter_context(S.min_preconditioning_size(d["minsize"]))
                    st.enter_context(S.preconditioner_tolerance(tol))
                    closure, plt, logdet = full._preconditioner()
                    if n < d["minsize"]:
                        if closure is not None or plt is not None or logdet is not None:
                            fails.append((label, "a preconditioner was built below min_preconditioning_size"))
                        continue
                    anydeg = any(m["deg"] for c in group for m in c["members"])
                    if closure is None:
                        if not (anydeg and any("NaN" in str(w.message) for w in wl)):
                            fails.append((label, "no preconditioner returned although the size is above min_preconditioning_size"))
                        continue
                    Pd = plt.to_dense().to(torch.float64).reshape(B, n, n) / su
                    Ddf = Dd.expand(*batch, n, n).reshape(B, n, n)
                    LLt = Pd - Ddf
                    match = None
                    for cand in group:
                        if all(float((LLt[q] - _approx(cand, q, A)).abs().max()) <= eps_t * 10 * max(1.0, float(A.abs().max())) for q in range(B)):
                            match = cand
                            break
                    if match is None:
                        if not _borderline(group, tol) and not anydeg:
                            fails.append((label, "the operator returned as L L^T + D is not (A - S) + D for any admissible pivot sequence of rank <= %d" % k))
                        continue
                    Pref = torch.stack([_approx(match, q, A) for q in range(B)]) + Ddf
                    eye = torch.eye(n, dtype=dtype).expand(*batch, n, n)
                    Pinv = closure(eye).to(torch.float64).reshape(B, n, n) * su
                    ref = torch.linalg.inv(Pref)
                    if float((Pinv - ref).abs().max()) > eps_t * 100 * float(ref.abs().max()):
                        fails.append((label, "closure(I) differs from (L L^T + D)^{-1} by %.3g" % float((Pinv - ref).abs().max())))
                    rhs = torch.arange(1, n * 2 + 1, dtype=dtype).reshape(n, 2)
                    got = closure(rhs.expand(*batch, n, 2)).to(torch.float64).reshape(B, n, 2) * su
                    if float((got - ref @ rhs.to(torch.float64)).abs().max()) > eps_t * 1000 * float(ref.abs().max()):
                        fails.append((label, "closure(rhs) differs from (L L^T + D)^{-1} rhs"))
                    ld = torch.logdet(Pref)
                    if list(logdet.shape) != batch:
                        fails.append((label, "log-determinant has shape %s, expected %s" % (list(logdet.shape), batch)))
                    elif float((logdet.to(torch.float64).reshape(B) - n * math.log(su) - ld).abs().max()) > eps_t * 1000 * max(1.0, float(ld.abs().max())):
                        fails.append((label, "reported log-determinant %s differs from log|L L^T + D| = %s" % (logdet.reshape(B).tolist(), ld.tolist())))
        except Exception as e:  # noqa
            fails.append(("%s[%s]" % ("pivoted_cholesky" if d["dmode"] == "none" else "preconditioner", "f64" if dtype == torch.float64 else "f32"),
                          "raised " + exc_summary(e)))
    return fails


def run(tier, seed):
    res = core.Result(PROP, tier, seed)
    r = tlc.run_sharded("MC_C10", "c10." + tier, 8, dict(Tier=tier, Seed=seed, ValSeed=seed, PcVariant="code"), invariants=INVS,
                        properties=["TraceMonotone"], timeout=3000)
    if r["violated"]:
        raise core.MachineryError("the specification's own loop violates %s:\n%s" % (r["violated"], r["text"][-1500:]))
    res.add_tlc("MC_C10", r)
    rejected = {}
    for v, inv in (VARIANTS.items() if tier == "thorough" else [("absolute_tol", "InvEarlyStop")]):
        rv = tlc.run_sharded("MC_C10", "c10.%s.%s" % (tier, v), 8, dict(Tier="thorough", Seed=seed, ValSeed=seed, PcVariant=v), invariants=INVS,
                             properties=["TraceMonotone"], timeout=3000)
        rejected[v] = rv["violated"]
        if rv["violated"] != inv:
            raise core.MachineryError("slipped variant %s is not rejected by %s (got %s): the invariants are vacuous" % (v, inv, rv["violated"]))
    res.notes["slipped_variants_rejected_by"] = rejected
    groups = {}
    for b in r["out"]:
        groups.setdefault(b["desc"]["id"], []).append(b)
    gl = [groups[k] for k in sorted(groups)]
    # canary: a behaviour whose residual is corrupted must be rejected
    g0 = copy.deepcopy(next(g for g in gl if g[0]["desc"]["dmode"] == "none" and g[0]["desc"]["inst"] in ("dense-full", "dense-5", "kron")
                            and g[0]["desc"]["k"] >= 2 and g[0]["desc"]["sden"] == 1))
    for cand in g0:
        cand["members"][0]["resid"]["num"][-1] += 3 * cand["members"][0]["resid"]["den"][-1]
    if not _replay(g0):
        raise core.MachineryError("canary: corrupted residual not rejected")
    outs = core.pmap(_replay, gl, chunksize=4)
    for g, fails in zip(gl, outs):
        d = g[0]["desc"]
        res.traces += 1
        res.evaluations += 2
        res.nontrivial.add((d["inst"], d["k"], d["tolname"], d["dmode"], d["sden"], d["minsize"]))
        for label, msg in fails:
            kind = core.failure_kind(dict(kind="raised" if msg.startswith("raised") else "value", msg=msg))
            sig = "%s|%s|%s|%s" % (PROP, label.split("[")[0] + ("[%s]" % d["dmode"] if d["dmode"] != "none" else ""), d["inst"], kind)
            res.violation(sig, "%s %s batch=%s rank bound=%d tol=%s scale=1/%d: %s: %s" % (d["inst"], g[0]["path"], d["b"], d["k"], d["tolname"], d["sden"], label, msg),
                          dict(group=g))
    res.notes["behaviours_with_tie_branches"] = sum(len({json.dumps([m["piv"][:g[0]["stopat"]] for m in c["members"]]) for c in g}) > 1 for g in gl)
    res.notes["terminal_states"] = len(r["out"])
    res.samples = [dict(desc=g[0]["desc"], earliest_stop=g[0]["stopat"], r=g[0]["r"], pivots=[m["piv"] for m in g[0]["members"]]) for g in gl[:3]]
    res.rule = ("18 instance families (full / low rank, tied diagonals, batches with different pivots and ranks, operator classes whose rows come from "
                "indexing) x rank bound 1..n+1 x tolerance {default, loose, tight} x scale {1, 1/100} x D in {none, constant, per element, batched}; all "
                "tie-breaking behaviours explored by TLC; library results accepted only as one of them")
    res.exhaustive = tier == "thorough"
    res.assumptions = ["a stopping decision that exact arithmetic takes within 1e-5 relative of the tolerance is not demanded from floating point",
                       "L L^T compared with the exact rational A - S at 1e-9 (float64) / 2e-4 (float32) relative to max|A|"]
    return res


def replay(rec, path):
    fails = _replay(rec["group"])
    for f in fails:
        print("  ", f)
    if fails:
        print("VIOLATION property=%s replay=%s" % (PROP, path))
        return 1
    print("now conforms")
    return 0
