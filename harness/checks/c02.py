"""C02 - composition and structure-preserving rewrites never change the matrix (spec/MC_C02.tla, spec/LOAlgebra.tla)."""
import copy
import json
import os

from .. import core, tlc
from ..actions import run_behaviour

PROP = "C02"
UNSUPPORTED = os.path.join(core.VERIF, "spec", "unsupported_C02.json")


def _sig(beh, mm):
    d = beh["desc"]
    act = mm["act"]
    first = beh["steps"][mm["step"]]["act"] if mm["step"] < len(beh["steps"]) else act
    parts = [PROP, act if not act.startswith("tail_") else "%s-after-%s" % (act, d["op"]), d["a"]]
    if d["fam"] in ("bin",) or d["op"] == "mul_op":
        parts.append(d["b"])
    elif d["fam"] == "scal":
        parts.append("scalar-kind=%d" % d["bp"][1][0])
    else:
        parts.append("-")
    parts.append(core.failure_kind(mm))
    return "|".join(parts)


def _allow_factory(table):
    def allow(beh):
        def f(step, exc):
            # an explicit not-supported error is permitted only in the declared cells of the table
            if not isinstance(exc, (NotImplementedError,)) and "not supported" not in str(exc).lower() \
                    and "not implemented" not in str(exc).lower():
                return False
            sig = "|".join(_sig(beh, dict(act=step["act"], step=0, kind="value")).split("|")[:4])
            return sig in table
        return f
    return allow


def _replay(beh):
    loose = 1e4 if beh["desc"]["fam"] == "psd" else 1.0
    table = _TABLE
    r = run_behaviour(beh, loose=loose, check_dtype=False, allow=_allow_factory(table)(beh), stop_at_first=True)
    return r


_TABLE = set()


def canary(behs):
    for beh in behs:
        b = copy.deepcopy(beh)
        st = b["steps"][-1]
        if "data" in st["expect"] and len(st["expect"]["data"]) > 1:
            st["expect"]["data"][-1] += 1
            r = run_behaviour(b, check_dtype=False)
            if not r["mismatches"]:
                raise core.MachineryError("canary: corrupted expectation was not rejected")
            return
    raise core.MachineryError("canary: no behaviour to corrupt")


def run(tier, seed):
    global _TABLE
    res = core.Result(PROP, tier, seed)
    if os.path.exists(UNSUPPORTED):
        _TABLE = set(json.load(open(UNSUPPORTED)))
    r = tlc.run_sharded("MC_C02", "c02." + tier, 16, dict(Tier=tier, Seed=seed, ValSeed=seed),
                        invariants=["InvSizeA", "InvSizeB", "InvAlgebra", "InvCommute"], timeout=6000)
    res.add_tlc("MC_C02", r)
    if r["violated"]:
        raise core.MachineryError("spec invariant %s violated in MC_C02:\n%s" % (r["violated"], r["text"][-2000:]))
    behs = r["out"]
    canary(behs)
    outs = core.pmap(_replay, behs)
    maxerr = 0.0
    fams = {}
    drift, predicted = {}, 0
    for beh, o in zip(behs, outs):
        d = beh["desc"]
        if d["fam"] == "bin" and d["op"] == "add":
            predicted += 1
            for pred, obs in o.get("drift", []):
                k = "%s + %s: model %s, library %s" % (d["a"], d["b"], pred, obs)
                drift[k] = drift.get(k, 0) + 1
        res.evaluations += o["obs"]
        res.traces += 1
        fams[d["fam"]] = fams.get(d["fam"], 0) + 1
        maxerr = max(maxerr, o["maxerr"])
        res.nontrivial.add((d["fam"], d["a"], d["b"], d["op"], json.dumps(d["bp"])))
        for mm in o["mismatches"]:
            res.violation(_sig(beh, mm), "%s %s(%s,%s) bp=%s dt=%s step %d (%s): %s" % (
                d["fam"], d["op"], d["a"], d["b"], d["bp"], d["dt"], mm["step"], mm["act"], mm["msg"]),
                dict(behaviour=beh, mismatch=mm, opts=dict(check_dtype=False, loose=1e4 if d["fam"] == "psd" else 1.0)))
    res.samples = [dict(desc=b["desc"], steps=[dict(act=s["act"], expect_shape=s["expect"].get("shape")) for s in b["steps"]]) for b in behs[:4]]
    res.rule = ("depth-2 programs enumerated by TLC: all ordered class pairs x {+,-,@} x batch-shape pairs; class x tensor operand orders; "
                "class x scalar kinds x {mul,rmul,div}; class x unary batch/diagonal operations; PSD class pairs x root-based operations; "
                "each followed by a second operation on the result. distinct = (family, classes, op, batch configuration)")
    res.exhaustive = True
    res.notes["behaviours_per_family"] = fams
    res.notes["max_relative_error_observed"] = maxerr
    res.notes["declared_unsupported_cells"] = len(_TABLE)
    # LORewrite (which result class `a + b` builds) against the library: information only, the property makes the choice invisible
    res.notes["rewrite_model"] = dict(additions_predicted=predicted, cells_where_library_differs=len(drift), examples=sorted(drift)[:25])
    res.assumptions = ["values sampled; structure enumerated", "root-based operations (mul of operators, add_low_rank, cat_rows, prod) compared with the "
                       "looser tolerance of DESIGN 3.7 because they go through Cholesky/eigen decompositions"]
    return res
