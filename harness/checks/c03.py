"""C03 - indexing and diagonal extraction match torch indexing (spec/LOIndex.tla, spec/MC_C03.tla).

1. model mode: TLC checks that the implementation-shaped model of __getitem__ / utils.getitem refines the ideal index
   semantics for every index tuple in the bounds (this is where the `-1 -> slice(-1, 0)` and the `tensor, int, tensor`
   defects of the pinned tree were found *in the model*, see known_findings.txt `fixed:` lines);
2. replay mode: TLC generates, per operator class, chunks of index tuples with their exact expected values; every one is
   cross-checked against torch on the dense tensor (spec sanity, exit 2 on disagreement) and then replayed into the library
   with the debug setting on and off.
"""
import copy
import json

import torch

from .. import bind, core, tlc
from ..actions import py_index, run_behaviour

PROP = "C03"


def _kinds(items):
    out = []
    for it in items:
        k = it["k"]
        if k == "int":
            out.append("int-" if it["a"] < 0 else "int")
        elif k == "sl":
            out.append("step" if it["c"] not in (-99, 1) else ("full" if (it["a"], it["b"]) == (-99, -99) else "slice"))
        elif k == "ten":
            out.append("ten%d" % len(it["t"]["shape"]))
        else:
            out.append(k)
    return ",".join(out)


def _allow(step, exc):
    # the only permitted deviation: an explicit not-supported error for declared-unsupported combinations
    msg = str(exc).lower()
    return isinstance(exc, NotImplementedError) or "not currently supported" in msg or "not supported" in msg


def _replay(beh):
    import linear_operator

    with linear_operator.settings.debug(bool(beh["desc"]["debug"])):
        r = run_behaviour(beh, check_dtype=False, allow=_allow)
    return r


def _torch_crosscheck(beh):
    """spec vs torch on the dense tensor: a disagreement is OUR bug (exit 2), never a verdict"""
    dense = bind.tensor(beh["steps"][1]["expect"], torch.float64)
    bad = []
    for st in beh["steps"][2:]:
        if st["act"] == "getitem":
            ref = dense[py_index(st["arg"])]
        else:
            ref = dense.diagonal(dim1=-2, dim2=-1)
        exp = bind.tensor(st["expect"], torch.float64)
        if list(ref.shape) != list(st["expect"]["shape"]) or not torch.equal(ref.reshape(-1), exp.reshape(-1)):
            bad.append((st["arg"], list(ref.shape), st["expect"]["shape"]))
    return bad


def _group(lines):
    """TLC prints one JSON line per action, keyed by the behaviour id; rebuild the behaviours"""
    heads, steps = {}, {}
    for ln in lines:
        if ln.get("k") == 0:
            heads[ln["id"]] = ln
        else:
            steps.setdefault(ln["id"], []).append(ln)
    behs = []
    for i, h in sorted(heads.items()):
        st = sorted(steps.get(i, []), key=lambda x: x["k"])
        if not st or not st[-1].get("last") or [x["k"] for x in st] != list(range(1, len(st) + 1)):
            raise core.MachineryError("incomplete behaviour %s from TLC" % i)
        behs.append(dict(chk="C03", desc=h["desc"], path=h["path"], term=h["term"], steps=[
            dict(act="construct", arg=[], expect=dict(shape=h["dense"]["shape"])),
            dict(act="to_dense", arg=[], expect=h["dense"])] + [dict(act=x["act"], arg=x["arg"], expect=x["expect"]) for x in st]))
    return behs


def run(tier, seed):
    res = core.Result(PROP, tier, seed)
    # ---- 1. model-level refinement
    consts = dict(Tier=tier, Seed=seed, ValSeed=seed, Part=0, NParts=1, Mode="model", FixedNeg=True, FixedAbs=True)
    rm = tlc.run("MC_C03", "c03.model." + tier, constants=consts, invariants=["InvRefine", "InvIntSlice", "InvMoved"],
                 workers=16, timeout=3000, heap="8g")
    res.add_tlc("MC_C03[model]", rm)
    if rm["violated"]:
        raise core.MachineryError("M-layer model of __getitem__ does not refine the ideal index semantics (%s):\n%s"
                                  % (rm["violated"], rm["text"][-2500:]))
    res.notes["model_index_tuples"] = rm["distinct"] // 2
    if tier == "thorough":
        # non-vacuity: the model of the *pinned* code (before the two fix commits) must be rejected
        for name, fn, fa in (("neg-int", False, True), ("absorbed-int", True, False)):
            c2 = dict(consts, FixedNeg=fn, FixedAbs=fa)
            rv = tlc.run("MC_C03", "c03.model.bad." + name, constants=c2, invariants=["InvRefine", "InvIntSlice"], workers=16,
                         timeout=3000, heap="8g")
            if not rv["violated"]:
                raise core.MachineryError("non-vacuity self-test failed: defective model variant %s was accepted" % name)
        res.notes["defective_model_variants_rejected"] = 2
    # ---- 2. behaviours
    r = tlc.run_sharded("MC_C03", "c03." + tier, 8, dict(Tier=tier, Seed=seed, ValSeed=seed, Mode="replay", FixedNeg=True, FixedAbs=True), timeout=6000)
    res.add_tlc("MC_C03[replay]", r)
    behs = _group(r["out"])
    if not behs:
        raise core.MachineryError("no behaviours")
    bad = [b for beh in behs for b in _torch_crosscheck(beh)]
    if bad:
        raise core.MachineryError("spec/torch disagreement on %d index tuples, e.g. %s" % (len(bad), bad[:3]))
    # canary
    b0 = copy.deepcopy(next(b for b in behs if len(b["steps"]) > 3))
    for st in b0["steps"][2:]:
        if st["expect"].get("data"):
            st["expect"]["data"][0] += 1
            break
    if not run_behaviour(b0, check_dtype=False)["mismatches"]:
        raise core.MachineryError("canary: corrupted expectation was not rejected")
    outs = core.pmap(_replay, behs, chunksize=2)
    n_items = 0
    for beh, o in zip(behs, outs):
        d = beh["desc"]
        res.traces += 1
        res.evaluations += o["obs"]
        for st in beh["steps"][2:]:
            n_items += 1
            if st["act"] == "getitem":
                res.nontrivial.add((d["cls"], len(d["b"]), _kinds(st["arg"])))
        for mm in o["mismatches"]:
            st = beh["steps"][mm["step"]]
            kinds = _kinds(st["arg"]) if st["act"] == "getitem" else "-"
            sig = "%s|%s|%s|%s|%s" % (PROP, mm["act"], d["cls"], kinds, core.failure_kind(mm))
            res.violation(sig, "%s batch=%s debug=%s dt=%s step %d %s[%s]: %s" % (
                beh["path"], d["b"], d["debug"], d["dt"], mm["step"], mm["act"],
                str(py_index(st["arg"])) if st["act"] == "getitem" else "", mm["msg"]),
                dict(behaviour=dict(beh, steps=beh["steps"][:2] + [st]), mismatch=mm, opts=dict(check_dtype=False)))
    res.samples = [dict(desc=b["desc"], path=b["path"], n_index_tuples=len(b["steps"]) - 3,
                        first=[str(py_index(s["arg"])) for s in b["steps"][2:5] if s["act"] == "getitem"]) for b in behs[:3]]
    res.rule = ("model mode: every index tuple over 16 item kinds per position for the listed shapes (exhaustive); replay mode: per class x "
                "batch shape a fixed fraction of those tuples (hash-partitioned; all of them in the thorough tier) plus ellipsis forms "
                "and diagonal(); distinct = (class, batch rank, item-kind pattern)")
    res.exhaustive = tier == "thorough"
    res.notes["index_evaluations"] = n_items
    res.assumptions = ["values sampled; index *patterns* enumerated", "every expected value is cross-checked against torch on the dense tensor"]
    return res
