"""C19 - incompatible shapes and out-of-range indices raise, never mis-compute (spec/MC_C19.tla).

TLC enumerates, for every operator class (square 4x4 and rectangular 2x3 instances, with and without a batch dimension), every
second-operand shape of rank <= 3 over sizes 1..5 and every index value that the validity predicates of the specification reject
(wrong inner dimension, size-1 inner dimension, non-broadcastable batch shapes, index >= size or < -size, square-only operations
on rectangular operators).  Each expectation is "raises"; the spec's verdict is cross-checked against torch on the densified
operator (a disagreement is a machinery error), then the call is made on the real operator with the debug setting on and off.
"""
import torch

from .. import bind, core, tlc

PROP = "C19"


def _group(lines):
    heads, steps = {}, {}
    for ln in lines:
        if ln.get("k") == 0:
            heads[ln["id"]] = ln
        else:
            steps.setdefault(ln["id"], []).append(ln)
    out = []
    for i, h in sorted(heads.items()):
        st = sorted(steps.get(i, []), key=lambda x: (x["act"], str(x["arg"])))
        if len(st) != h["total"]:
            raise core.MachineryError("incomplete behaviour %s" % i)
        out.append(dict(h, steps=st))
    return out


def _index(shape, p, v, tensor):
    idx = [slice(None)] * len(shape)
    idx[p - 1] = torch.tensor([v]) if tensor else v
    return tuple(idx)


def _do(obj, act, arg, dtype, is_op):
    """perform the invalid call on obj (the real operator, or the dense tensor for the torch cross-check)"""
    import linear_operator

    Z = lambda s: torch.ones(*s, dtype=dtype)
    if act == "matmul":
        return obj @ Z(arg)
    if act == "rmatmul":
        return Z(arg) @ obj
    if act == "add_t":
        return obj + Z(arg)
    if act == "mul_t":
        return obj * Z(arg)
    if act in ("add_op", "sub_op", "jitter_add_op"):
        from linear_operator.operators import (ConstantDiagLinearOperator, DenseLinearOperator, DiagLinearOperator, IdentityLinearOperator,
                                               ZeroLinearOperator)

        code, sz = arg
        other = ZeroLinearOperator(sz, sz, dtype=dtype) if code == 5 else (ConstantDiagLinearOperator(torch.full((1,), 2.0, dtype=dtype), sz) if code == 1 else IdentityLinearOperator(sz, dtype=dtype) if code == 2
                 else DiagLinearOperator(torch.ones(sz, dtype=dtype)) if code == 3 else DenseLinearOperator(torch.ones(sz, sz, dtype=dtype)))
        if not is_op:
            o = other.to_dense()
            return obj + o if act != "sub_op" else obj - o
        if act == "jitter_add_op":
            if obj.shape[-1] != obj.shape[-2]:
                raise RuntimeError("add_jitter of a rectangular operator")
            r = obj.add_jitter(0.5) + other
        else:
            r = obj + other if act == "add_op" else obj - other
        return linear_operator.to_dense(r)
    if act == "solve":
        return obj.solve(Z(arg)) if is_op else torch.linalg.solve(obj, Z(arg))
    if act == "inv_quad_logdet":
        return obj.inv_quad_logdet(Z(arg), logdet=True)[0] if is_op else torch.linalg.solve(obj, Z(arg))
    if act == "inv_quad":
        return obj.inv_quad(Z(arg)) if is_op else torch.linalg.solve(obj, Z(arg))
    if act == "add_diagonal":
        return obj.add_diagonal(Z(arg)) if is_op else obj + torch.diag_embed(Z(arg).expand(*obj.shape[:-1]))
    if act == "expand":
        return obj.expand(*arg)
    if act in ("cat_rows_dim", "cat_cols_dim"):
        other = Z(list(obj.shape[:-2]) + list(arg))
        dim = -2 if act == "cat_rows_dim" else -1
        if is_op:
            return linear_operator.operators.cat([obj, linear_operator.to_linear_operator(other)], dim=dim).to_dense()
        return torch.cat([obj, other], dim=dim)
    if act == "getitem_int":
        r = obj[_index(obj.shape, arg[0], arg[1], False)]
        return linear_operator.to_dense(r) if is_op else r
    if act == "getitem_ten":
        r = obj[_index(obj.shape, arg[0], arg[1], True)]
        return linear_operator.to_dense(r) if is_op else r
    if act == "logdet":
        return obj.logdet() if is_op else torch.logdet(obj)
    if act == "cholesky":
        return obj.cholesky() if is_op else torch.linalg.cholesky(obj)
    if act == "root_decomposition":
        return obj.root_decomposition() if is_op else torch.linalg.cholesky(obj)
    raise KeyError(act)


def _replay(beh):
    import linear_operator

    dtype = bind.DT[beh["desc"]["dt"]]
    fails, spec_errors = [], []
    with linear_operator.settings.debug(bool(beh["desc"]["debug"])):
        try:
            op = bind.build(beh["term"], dtype)
            dense = op.to_dense()
        except Exception as e:  # noqa
            return [("construct", None, "raised %s" % type(e).__name__)], []
        for st in beh["steps"]:
            act, arg = st["act"], st["arg"]
            # spec vs torch
            try:
                _do(dense, act, arg, dtype, False)
                spec_errors.append((act, arg, list(dense.shape)))
                continue
            except Exception:
                pass
            try:
                r = _do(op, act, arg, dtype, True)
                shp = list(r.shape) if hasattr(r, "shape") else None
                fails.append((act, arg, "call returned a result of shape %s instead of raising" % shp))
            except Exception:
                pass
    return fails, spec_errors


def run(tier, seed):
    res = core.Result(PROP, tier, seed)
    r = tlc.run_sharded("MC_C19", "c19." + tier, 8, dict(Tier=tier, Seed=seed, ValSeed=seed), invariants=["InvAllInvalid"], timeout=3000)
    res.add_tlc("MC_C19", r)
    if r["violated"]:
        raise core.MachineryError("MC_C19 self-check %s violated" % r["violated"])
    behs = _group(r["out"])
    outs = core.pmap(_replay, behs, chunksize=1)
    spec_bad = [x for _, se in outs for x in se]
    if spec_bad:
        raise core.MachineryError("spec/torch disagreement: torch accepts %d calls the specification calls invalid, e.g. %s" % (len(spec_bad), spec_bad[:4]))
    # canary: a valid call listed as invalid must be reported as "returned"
    import copy

    b0 = copy.deepcopy(behs[0])
    b0["steps"] = [dict(act="matmul", arg=[b0["shape"][-1], 2], expect=dict(raises=True))]
    f0, s0 = _replay(b0)
    if not s0:
        raise core.MachineryError("canary: a valid call was not recognised as valid by the torch cross-check")
    for beh, (fails, _) in zip(behs, outs):
        res.traces += 1
        res.evaluations += len(beh["steps"])
        for st in beh["steps"]:
            res.nontrivial.add((beh["desc"]["cls"], tuple(beh["desc"]["b"]), st["act"], str(st["arg"])))
        for act, arg, msg in fails:
            sig = "%s|%s|%s|no-exception" % (PROP, act, beh["desc"]["cls"])
            res.violation(sig, "%s shape=%s debug=%s: %s(%s): %s" % (beh["path"], beh["shape"], beh["desc"]["debug"], act, arg, msg),
                          dict(behaviour=dict(beh, steps=[dict(act=act, arg=arg, expect=dict(raises=True))])))
    res.samples = [dict(cls=b["desc"]["cls"], shape=b["shape"], calls=[(s["act"], s["arg"]) for s in b["steps"][:6]]) for b in behs[:3]]
    res.rule = ("per class x batch x {square 4x4, rectangular 2x3}: every operand shape of rank <= 3 over sizes 1..5 / index value that the spec's validity "
                "predicates reject, for matmul, rmatmul, +, elementwise *, solve, inv_quad, add_diagonal, expand, concatenation, integer and tensor "
                "indices, square-only operations; distinct = (class, batch, operation, operand)")
    res.exhaustive = True
    res.assumptions = ["any exception type is accepted as 'raises'", "the spec's invalidity verdict is cross-checked against torch for every call"]
    return res


def replay(rec, path):
    fails, se = _replay(rec["behaviour"])
    for f in fails:
        print("  ", f)
    if fails:
        print("VIOLATION property=%s replay=%s" % (PROP, path))
        return 1
    print("call now raises")
    return 0
