"""C08 - conjugate gradients converges to the solution and returns true Lanczos matrices (spec/LOCG.tla, MC_C08.tla, Trace_C08.tla).

(1) TLC explores the control layer of LOCG (every configuration of limits x every sequence of per-iteration observations) and checks the
    control invariants; slipped variants of the loop must be rejected.
(2) Executions of the real linear_cg are RECORDED - for each scenario the same call is made with iteration budgets 1..K (each a complete
    execution; the arithmetic is deterministic, so budget j gives the j-th iterate) plus the full call with tridiagonalisation, a rescaled
    right-hand side and other preconditioners - and the recorded traces (lg-encoded A-norm errors, residuals, change flags, warnings,
    properties of T) are validated by TLC against the property clauses of LOCG (Trace_C08): one total verdict per trace naming the
    clauses that failed.
"""
import contextlib
import json
import math
import os
import warnings

import torch

from .. import core, tlc
from ..replay import exc_summary

PROP = "C08"
CTL_INVS = ["InvMinIters", "InvTriBudget", "InvIters", "InvTSide", "InvWarn", "InvRaise", "InvNoSpuriousWarn"]
CTL_VARIANTS = {"exit_at_10": "InvNoSpuriousWarn", "no_tridiag_guard": "InvTriBudget", "lost_warning": "InvWarn"}
NA = -99999


def lg(x):
    x = float(x)
    if not math.isfinite(x):
        return 99999
    return int(round(1000 * math.log2(max(x, 2.0 ** -99))))


def _h(*a):
    v = 1469598103
    for x in a:
        v = (v * 1000003 + (hash(x) if not isinstance(x, int) else x)) % 2147483647
    return v


def spectrum(family, n, kappa):
    if n == 1:
        return torch.tensor([float(kappa) ** 0.5], dtype=torch.float64)
    t = torch.linspace(0, 1, n, dtype=torch.float64)
    if family == "uniform":
        return 1 + t * (kappa - 1)
    if family == "geometric":
        return torch.tensor(float(kappa), dtype=torch.float64) ** t
    # clustered: two tight clusters at 1 and kappa
    half = n // 2
    lo = 1 + 1e-3 * torch.arange(half, dtype=torch.float64) / max(1, half)
    hi = kappa * (1 - 1e-3 * torch.arange(n - half, dtype=torch.float64) / max(1, n - half))
    return torch.cat([lo, hi])


def make_matrix(sc, g):
    """A = Q diag(lambda) Q^T with a Householder Q, per batch member"""
    n, batch = sc["n"], sc["batch"]
    B = int(math.prod(batch)) if batch else 1
    mats = []
    for _b in range(B):
        v = torch.randn(n, generator=g, dtype=torch.float64)
        Q = torch.eye(n, dtype=torch.float64) - 2 * torch.outer(v, v) / (v @ v)
        lam = spectrum(sc["family"], n, sc["kappa"]) * sc.get("scale", 1.0)
        mats.append(Q @ torch.diag(lam) @ Q.T)
    A = torch.stack(mats).reshape(*batch, n, n)
    return (A + A.mT) / 2


def preconditioner(kind, A):
    """-> (closure or None, dense P (float64, per batch) or None)"""
    if kind == "none":
        return None, None
    A64 = A.to(torch.float64)
    if kind.startswith("jacobi"):
        P = torch.diag_embed(A64.diagonal(dim1=-1, dim2=-2))
    elif kind == "exact":
        P = A64.clone()
    else:  # low rank + diagonal
        w, V = torch.linalg.eigh(A64)
        k = min(3, A.shape[-1])
        P = (V[..., -k:] * w[..., None, -k:]) @ V[..., -k:].mT + torch.eye(A.shape[-1], dtype=torch.float64) * w[..., :1, None]
    if kind.endswith("*1e4"):
        P = P * 1e4
    if kind.endswith("*1e-4"):
        P = P * 1e-4
    Pinv = torch.linalg.inv(P).to(A.dtype)
    return (lambda x: Pinv @ x), P


def run_cg(A, rhs, sc, max_iter, n_tri=0, max_tri=None, guess=None, pre=None, tol=None):
    """-> dict(x, T, warned, raised, iters)"""
    from linear_operator import settings
    from linear_operator.utils.linear_cg import linear_cg
    from linear_operator.utils.warnings import NumericalWarning

    calls = [0]

    def mm(x):
        calls[0] += 1
        return A @ x

    kw = dict(n_tridiag=n_tri, tolerance=sc["tol"] if tol is None else tol, max_iter=max_iter,
              max_tridiag_iter=(min(max_iter, 1) if max_tri is None else max_tri), initial_guess=None if guess is None else guess.clone(),
              preconditioner=pre)
    if sc["eps"] is not None:
        kw["eps"] = sc["eps"]
    out = dict(x=None, T=None, warned=False, raised=None, iters=0)
    with warnings.catch_warnings(record=True) as wl, settings.terminate_cg_by_size(sc["by_size"]), contextlib.ExitStack() as st:
        warnings.simplefilter("always")
        if sc.get("via_settings"):
            # the same limits, handed over the way LinearOperator._solve does: arguments left at None, values taken from the settings
            st.enter_context(settings.max_cg_iterations(kw["max_iter"]))
            st.enter_context(settings.max_lanczos_quadrature_iterations(kw["max_tridiag_iter"]))
            kw["max_iter"], kw["max_tridiag_iter"] = None, None
        try:
            r = linear_cg(mm, rhs.clone(), **kw)
        except Exception as e:  # noqa
            out["raised"] = exc_summary(e)
            return out
    out["warned"] = any(issubclass(w.category, NumericalWarning) for w in wl)
    out["iters"] = max(0, calls[0] - 1)
    if n_tri:
        out["x"], out["T"] = r
    else:
        out["x"] = r
    return out


def anorm(A64, E):
    """per column A-norm of E (.., n, c) -> (.., c)"""
    return (E * (A64 @ E)).sum(-2).clamp_min(0).sqrt()


def lanczos_ref(M64, z, steps):
    """plain Lanczos with full reorthogonalisation on the symmetric matrix M64 from the unit vector z -> (alphas, betas)"""
    n = z.shape[0]
    Q = [z]
    al, be = [], []
    for j in range(steps):
        w = M64 @ Q[j]
        a = float(w @ Q[j])
        al.append(a)
        w = w - a * Q[j] - (be[-1] * Q[j - 1] if j > 0 else 0)
        for q in Q:
            w = w - (w @ q) * q
        b = float(w.norm())
        if j + 1 < steps:
            if b < 1e-12 * max(1.0, abs(a)):
                break
            be.append(b)
            Q.append(w / b)
    return al, be


def record(sc):
    """-> trace dict for Trace_C08 (or dict(error=...))"""
    g = torch.Generator().manual_seed(sc["seed"])
    dtype = torch.float32 if sc["dt"] == "f32" else torch.float64
    n, batch, nc = sc["n"], sc["batch"], sc["ncols"]
    B = int(math.prod(batch)) if batch else 1
    A = make_matrix(sc, g).to(dtype)
    A64 = A.to(torch.float64)
    xs = torch.randn(*batch, n, nc, generator=g, dtype=torch.float64)
    rhs = (A64 @ xs)
    kinds = sc["cols"]                      # per column: normal / zero / tiny / huge
    for c, kd in enumerate(kinds):
        if kd == "zero":
            rhs[..., c] = 0
        elif kd == "tiny":
            rhs[..., c] *= 1e-7 / rhs[..., c].norm(dim=-1, keepdim=True)
        elif kd == "huge":
            rhs[..., c] *= 1e8
        elif kd in ("eigvec", "inv2"):
            # a right-hand side in an invariant subspace of dimension 1 / 2: its Krylov space is exhausted after 1 / 2 steps
            _, Vv = torch.linalg.eigh(A64)
            rhs[..., c] = Vv[..., :, 0] if kd == "eigvec" else Vv[..., :, 0] + 0.5 * Vv[..., :, -1]
    rhs = rhs.to(dtype)
    if sc["nan"] == "rhs":
        rhs[..., 0, 0] = float("nan")
    if sc["nan"] == "matrix":
        A = A.clone()
        A[..., 0, 0] = float("nan")
    vector = sc["vector"]
    rhs_arg = rhs[..., 0] if vector else rhs
    xstar = torch.linalg.solve(A64, rhs.to(torch.float64)) if not sc["nan"] else None
    guess = None
    if sc["guess"] == "random":
        guess = torch.randn(*batch, n, nc, generator=g, dtype=torch.float64).to(dtype)
    elif sc["guess"] == "exact":
        guess = xstar.to(dtype)
    if guess is not None and vector:
        guess = guess[..., 0]
    pre, P = preconditioner(sc["precond"], A)
    # spectrum of the (preconditioned) operator
    if sc["nan"]:
        lgrho = 0
        lam_lo = lam_hi = 1.0
        M64 = A64
    else:
        if P is None:
            M64 = A64
        else:
            Lp = torch.linalg.cholesky(P)
            M64 = torch.linalg.solve_triangular(Lp, torch.linalg.solve_triangular(Lp, A64, upper=False).mT, upper=False)
            M64 = (M64 + M64.mT) / 2
        ev = torch.linalg.eigvalsh(M64)
        lam_lo, lam_hi = float(ev.min()), float(ev.max())
        kap = float((ev[..., -1] / ev[..., 0]).max())
        rho = (math.sqrt(kap) - 1) / (math.sqrt(kap) + 1)
        lgrho = lg(rho) if rho > 0 else -99000
    zero_cols = [kd == "zero" for kd in kinds] * B
    x0 = torch.zeros(*batch, n, nc, dtype=torch.float64) if guess is None else (guess.unsqueeze(-1) if vector else guess).to(torch.float64).expand(*batch, n, nc)
    bn = rhs.to(torch.float64).norm(dim=-2)                         # (.., c)
    # accuracy floor implied by the safe divisions (inner products r^T P^-1 r and p^T A p compared with eps) and the freeze threshold 1e-10:
    # no safe division fires while ||r||^2 > eps * max(lmax(P), lmax(P)^2 / lmin(A))  (||p||_P >= ||z||_P in CG); one decade of margin
    eps_cg = 1e-10 if sc["eps"] is None else sc["eps"]
    if sc["nan"]:
        relfloor = 1.0
    else:
        evA = torch.linalg.eigvalsh(A64)
        lminA = float(evA.min())
        lmaxP = 1.0 if P is None else float(torch.linalg.eigvalsh(P).max())
        relfloor = max(1e-9, 10 * math.sqrt(eps_cg * max(lmaxP, lmaxP ** 2 / lminA, 1.0)))
    if dtype == torch.float32:
        relfloor = max(relfloor, 1e-3)

    def col_stats(X):
        e = anorm(A64, X - xstar)
        e0 = anorm(A64, x0 - xstar)
        rel_e = torch.where(e0 > 0, e / e0.clamp_min(1e-300), torch.zeros_like(e))
        r = (A64 @ X - rhs.to(torch.float64)).norm(dim=-2)
        rel_r = torch.where(bn > 1e-10, r / bn.clamp_min(1e-300), torch.zeros_like(r))   # "almost zero" rhs columns count as zero
        return rel_e.reshape(-1), rel_r.reshape(-1)

    cfg = dict(n=n, max_iter=sc["max_iter"], max_tri=sc["max_tri"], n_tri=sc["n_tri"], by_size=sc["by_size"], nan=bool(sc["nan"]),
               ncols=B * nc, lgtol=lg(sc["tol"]), lgfloor=lg(relfloor), lgrho=lgrho, zero=zero_cols, dt=sc["dt"], all_conv0=False)
    steps = []
    fin = dict(raised=False, warned=False, iters=0, meanres=NA, tside=0, tsym=True, ritz=True, quad=NA, lanczos=NA, zero_ok=True,
               scale=NA, precond=NA, obs=[], budget_applies=False)
    if not sc["nan"] and sc["max_tri"] <= sc["max_iter"]:
        e, r = col_stats(x0)
        cfg["all_conv0"] = bool((r < 1e-10).all())
        steps.append(dict(err=[0] * (B * nc), res=[lg(v) for v in r], changed=[False] * (B * nc), warned=False, meanres=lg(r.mean()), it=0))
        prev = x0
        K = min(sc["max_iter"], sc["budgets"])
        for j in range(1, K + 1):
            o = run_cg(A, rhs_arg, sc, j, guess=guess, pre=pre)
            if o["raised"]:
                return dict(error="budget %d raised %s" % (j, o["raised"]))
            X = (o["x"].unsqueeze(-1) if vector else o["x"]).to(torch.float64)
            if list(X.shape) != list(batch) + [n, nc]:
                return dict(error="budget %d: result has shape %s" % (j, list(o["x"].shape)))
            e, r = col_stats(X)
            # (the result is un-normalised by a multiplication with the rhs norm: a frozen column may move by a rounding error)
            ulp = 64 * (2.3e-16 if dtype == torch.float64 else 1.2e-7)
            ch = ((X - prev).abs() > ulp * prev.abs().max(dim=-2, keepdim=True)[0].clamp_min(1e-300)).any(dim=-2).reshape(-1)
            steps.append(dict(err=[lg(v) for v in e], res=[lg(v) for v in r], changed=[bool(v) for v in ch], warned=o["warned"],
                              meanres=lg(r.mean()), it=o["iters"]))
            fin["obs"].append([bool(r.mean() < sc["tol"]) if o["iters"] == j else True, False])
            prev = X
    # the full call
    o = run_cg(A, rhs_arg, sc, sc["max_iter"], n_tri=sc["n_tri"], max_tri=sc["max_tri"], guess=guess, pre=pre)
    fin["raised"] = o["raised"] is not None
    if o["raised"] is None:
        X = (o["x"].unsqueeze(-1) if vector else o["x"]).to(torch.float64)
        fin["warned"], fin["iters"] = o["warned"], o["iters"]
        if not sc["nan"]:
            e, r = col_stats(X)
            fin["meanres"] = lg(r.mean())
            if guess is None:
                fin["zero_ok"] = all(bool((X[..., c] == 0).all()) for c, kd in enumerate(kinds) if kd == "zero")
            # scaling law: x(c b) = c x(b)
            # (powers of two: the normalised right-hand side - hence the whole run - is bitwise the same, so the law holds exactly
            #  unless a threshold is applied to an un-normalised quantity)
            # (norms below eps = 1e-10 are documented to be treated as zero: the scaled columns stay above 1e-8)
            nz = bn[bn > 0]
            cs = 2.0 ** -20 if (sc["seed"] % 2 and len(nz) and float(nz.min()) * 2.0 ** -20 > 1e-8) else 2.0 ** 10
            if eps_cg <= 1e-20 and len(nz) and float(nz.min()) * 2.0 ** -40 > eps_cg * 1e6:
                # with a smaller eps the documented zero threshold is eps itself: a column of norm ~1e-12 is an ordinary column (it lies
                # below the freeze threshold 1e-10, which applies to residuals of the normalised system, not to right-hand sides)
                cs = 2.0 ** -40
            o2 = run_cg(A, rhs_arg * cs, sc, sc["max_iter"], n_tri=sc["n_tri"], max_tri=sc["max_tri"],
                        guess=None if guess is None else guess * cs, pre=pre)
            if o2["raised"] is None:
                X2 = (o2["x"].unsqueeze(-1) if vector else o2["x"]).to(torch.float64)
                dev = ((X2 - cs * X).norm(dim=-2) / (cs * X).norm(dim=-2).clamp_min(1e-300))
                dev = torch.where((cs * X).norm(dim=-2) > 0, dev, (X2.norm(dim=-2) > 0).to(dev.dtype))
                fin["scale"] = lg(dev.max())
            else:
                fin["scale"] = 99999
            # the limit does not depend on the preconditioner (tight stopping, small safe-division threshold, moderate conditioning)
            if sc["limit"]:
                sc2 = dict(sc, eps=1e-30)
                o3 = run_cg(A, rhs_arg, sc2, 6 * n + 20, guess=guess, pre=pre, tol=1e-9)
                if o3["raised"] is None:
                    X3 = (o3["x"].unsqueeze(-1) if vector else o3["x"]).to(torch.float64)
                    live = [c for c, kd in enumerate(kinds) if kd != "zero"]
                    if live:
                        dv = ((X3 - xstar).norm(dim=-2) / xstar.norm(dim=-2).clamp_min(1e-300))[..., live]
                        fin["precond"] = lg(dv.max())
                else:
                    fin["precond"] = 99999
        if sc["n_tri"]:
            T = o["T"].to(torch.float64)
            tcheck = guess is None        # the Lanczos statement is about runs started at the normalised right-hand side
            fin["tside"] = int(T.shape[-1])
            ok_shape = list(T.shape[:-2]) == [sc["n_tri"]] + list(batch) and T.shape[-1] == T.shape[-2]
            tri = torch.triu(torch.ones(T.shape[-1], T.shape[-1]), 2).bool()
            fin["tsym"] = bool(ok_shape and torch.equal(T, T.mT) and not T[..., tri].any() and not T[..., tri.T].any() and torch.isfinite(T).all())
            if fin["tsym"] and not sc["nan"] and tcheck:
                # rows of T written after a residual has fallen below the accuracy floor are outside the property's claim (the safe divisions
                # zero the recurrence coefficients there): the clauses are evaluated on the leading block written above the floor
                # ... per column: a column that has converged (an eigenvector, a vector in a small invariant subspace) must not cut the matrices
                # of the columns that have not
                Tfull = T
                alive = {cc: True for cc in range(B * nc) if not zero_cols[cc]}
                mf = {cc: 0 for cc in alive}
                for jb in range(1, Tfull.shape[-1] + 1):
                    if not any(alive.values()):
                        break
                    ob = run_cg(A, rhs_arg, sc, jb, guess=guess, pre=pre, tol=0.0)
                    if ob["raised"] or ob["iters"] != jb:
                        break
                    _, rb = col_stats((ob["x"].unsqueeze(-1) if vector else ob["x"]).to(torch.float64))
                    for cc in alive:
                        if alive[cc] and float(rb[cc]) > relfloor:
                            mf[cc] = jb
                        else:
                            alive[cc] = False
                mf = {cc: (min(v + 1, Tfull.shape[-1]) if v else 0) for cc, v in mf.items()}
                mfloor = min(mf.values()) if mf else 0
                T = Tfull[..., :mfloor, :mfloor]
                live = [c for c in range(sc["n_tri"]) if kinds[c] != "zero"]
                if live and max([mf[b * nc + c] for c in live for b in range(B)] + [0]) >= 1:
                    slack = 1e-6 if dtype == torch.float64 else 1e-3
                    ritz_ok = True
                    for c in live:
                        for b in range(B):
                            m_cb = mf[b * nc + c]
                            if m_cb >= 1:
                                rz = torch.linalg.eigvalsh(Tfull.reshape(sc["n_tri"], B, *Tfull.shape[-2:])[c, b, :m_cb, :m_cb])
                                ritz_ok = ritz_ok and bool((rz >= lam_lo * (1 - slack) - 1e-12).all() and (rz <= lam_hi * (1 + slack)).all())
                    fin["ritz"] = ritz_ok
                    # independent Lanczos on the (preconditioned) operator from the normalised right-hand side
                    if P is None:
                        worst, quad = 0.0, None
                        for c in live:
                            for b in range(B):
                                m_cb = mf[b * nc + c]
                                if m_cb < 1:
                                    continue
                                Mb = M64.reshape(B, n, n)[b]
                                z = rhs.to(torch.float64).reshape(B, n, nc)[b, :, c]
                                z = z / z.norm()
                                al, be = lanczos_ref(Mb, z, m_cb)
                                Tb = Tfull.reshape(sc["n_tri"], B, *Tfull.shape[-2:])[c, b, :m_cb, :m_cb]
                                m = min(len(al), Tb.shape[-1], 8)
                                d = max(abs(float(Tb[i, i]) - al[i]) for i in range(m))
                                if m > 1:
                                    d = max(d, max(abs(abs(float(Tb[i + 1, i])) - be[i]) for i in range(min(m - 1, len(be)))))
                                worst = max(worst, d / lam_hi)
                                if m_cb == n and sc["kappa"] <= 1e4 and sc["family"] != "clustered":
                                    w, V = torch.linalg.eigh(Tb)
                                    wa, Va = torch.linalg.eigh(Mb)
                                    if (w > 0).all():
                                        q1 = float((V[0] ** 2 * w.log()).sum())
                                        q2 = float(((Va.T @ z) ** 2 * wa.log()).sum())
                                        q3 = float((V[0] ** 2 / w).sum())
                                        q4 = float(((Va.T @ z) ** 2 / wa).sum())
                                        quad = max(quad or 0.0, abs(q1 - q2) / max(1.0, abs(q2)), abs(q3 - q4) / max(1e-300, abs(q4)))
                                    else:
                                        quad = 1.0
                        if sc["kappa"] <= 1e2:
                            fin["lanczos"] = lg(worst)
                        # does the independent recurrence break down (coupling < 1e-5) inside the budget?  If not, the budget must be honoured
                        need = min(sc["max_tri"], n, sc["max_iter"] - 1)
                        # (one such column is enough: the matrices of all columns are written by the same loop, so the recording has to go on as
                        #  long as ANY column still produces coefficients)
                        good = []
                        for c in live:
                            for b in range(B):
                                z = rhs.to(torch.float64).reshape(B, n, nc)[b, :, c]
                                al, be = lanczos_ref(M64.reshape(B, n, n)[b], z / z.norm(), need + 1)
                                if not (len(al) < min(need + 1, n) or (be and min(be[:max(0, need - 1)] or [1.0]) < 1e-5 * lam_hi)):
                                    good.append(b * nc + c)
                        ok = bool(good)
                        # (the CG recurrence stops producing coefficients once a residual falls below the accuracy floor: the safe division zeroes beta)
                        not_frozen = False
                        if ok:
                            still = set(good)
                            for jb in range(max(1, need - 3), need + 1):      # residuals of the iterates just before the budget ends (tolerance 0: no early exit)
                                ob = run_cg(A, rhs_arg, sc, jb, guess=guess, pre=pre, tol=0.0)
                                if ob["raised"] or ob["iters"] != jb:
                                    still = set()
                                    break
                                Xb = (ob["x"].unsqueeze(-1) if vector else ob["x"]).to(torch.float64)
                                _, rb = col_stats(Xb)
                                still = {cc for cc in still if float(rb[cc]) > relfloor}
                            not_frozen = bool(still)
                        fin["budget_applies"] = bool(ok and not_frozen and dtype == torch.float64 and sc["kappa"] <= 1e4)
                        if quad is not None:
                            fin["quad"] = lg(quad)
    return dict(cfg=cfg, steps=steps, final=fin)


def scenarios(tier, seed):
    sizes = [1, 2, 3, 5, 8, 12, 16, 24, 40, 64]
    fams = ["uniform", "clustered", "geometric"]
    kappas = [1, 10, 100, 1e4, 1e6]
    batches = [[], [2], [2, 1]]
    preconds = ["none", "jacobi", "exact", "lowrank", "jacobi*1e4", "lowrank*1e-4"]
    tols = [1.0, 1e-2, 1e-4]
    out = []
    N = 240 if tier == "quick" else 2400
    for i in range(N):
        h = lambda k: _h(i, k, 7)           # structure does not depend on the seed; values do
        n = sizes[h(1) % len(sizes)]
        dt = "f32" if h(2) % 3 == 0 else "f64"
        kap = kappas[h(3) % (3 if dt == "f32" else len(kappas))]
        if n == 1:
            kap = 1
        nc = 1 + h(4) % 3
        batch = batches[h(12) % 3]
        vector = nc == 1 and h(5) % 2 == 0 and not batch      # a 1-d right-hand side
        cols = ["normal"] * nc
        if nc > 1 and h(6) % 3 == 0:
            cols[1] = ["zero", "tiny", "huge"][h(7) % 3]
        if nc == 1 and h(6) % 11 == 0:
            cols[0] = ["zero", "tiny", "huge"][h(7) % 3]
        zero_col = "zero" in cols        # (zero columns are specified for the default zero initial guess only)
        max_iter = [n + 3, 2 * n + 10, max(1, n // 2), 12, 40, 1][h(8) % 6]
        n_tri = [0, 0, 1, nc][h(9) % 4]
        max_tri = [min(20, max_iter), min(n, max_iter), min(3, max_iter), max_iter][h(10) % 4]
        sc = dict(id=i, seed=seed * 7919 + i, n=n, family=fams[h(11) % 3], kappa=kap, batch=batch, ncols=nc, vector=vector, cols=cols,
                  guess="none" if zero_col else ["none", "none", "random", "exact"][h(13) % 4], precond=preconds[h(14) % len(preconds)], tol=tols[h(15) % 3],
                  max_iter=max_iter, n_tri=n_tri, max_tri=max_tri, by_size=h(16) % 4 == 0, dt=dt, eps=None if h(17) % 3 else 1e-30,
                  nan="", budgets=min(max_iter, 45), scale=[1.0, 1.0, 1e5, 1e-5][h(18) % 4])
        sc["via_settings"] = h(21) % 3 == 0
        if h(19) % 23 == 0 or h(19) % 23 == 7:
            sc["max_tri"] = max_iter + 1 + h(20) % 3          # inconsistent limits must raise
            sc["n_tri"] = max(1, n_tri)
            sc["via_settings"] = h(19) % 23 == 7                # ... also when both limits come from the settings
        elif h(19) % 29 == 0:
            sc["nan"] = ["rhs", "matrix"][h(20) % 2]
            sc["guess"], sc["precond"] = "none", "none"
        if dt == "f32" and sc["scale"] != 1.0:
            sc["scale"] = 1.0
        sc["limit"] = kap <= 100 and dt == "f64" and sc["guess"] != "exact" and "tiny" not in cols and "huge" not in cols
        out.append(sc)
    # a fixed block aimed at the tridiagonal budget: more than 10 Lanczos steps requested, tolerance met before the budget is used up
    k = 0
    for n in (12, 16, 24):
        for kap in (10, 100):
            for tol in (1.0, 1e-2):
                for max_tri in (n, 11, 20):
                    for max_iter in (n + 3, 2 * n + 10):
                        k += 1
                        if tier == "quick" and k % 3:
                            continue
                        out.append(dict(id=100000 + k, seed=seed * 31 + k, n=n, family=fams[k % 3], kappa=kap, batch=[[], [2]][k % 2], ncols=1 + k % 2, vector=False,
                                        cols=["normal"] * (1 + k % 2), guess="none", precond="none", tol=tol, max_iter=max_iter, n_tri=1, max_tri=min(max_tri, max_iter), by_size=False,
                                        dt="f64", eps=None, nan="", budgets=min(max_iter, 45), scale=1.0, limit=False))
    # a fixed block aimed at columns of different Krylov dimension: a generic column next to one in a small invariant subspace; the Lanczos
    # matrix of the generic column must still be complete
    k = 0
    for n in (6, 10, 14):
        for kd in ("eigvec", "inv2", "zero"):
            for bt in ([], [2]):
                k += 1
                if tier == "quick" and k % 2:
                    continue
                out.append(dict(id=200000 + k, seed=seed * 37 + k, n=n, family=fams[k % 3], kappa=[10, 100][k % 2], batch=bt, ncols=2, vector=False,
                                cols=["normal", kd], guess="none", precond="none", tol=1e-2, max_iter=2 * n + 10, n_tri=2, max_tri=n - 2, by_size=False,
                                dt="f64", eps=None, nan="", budgets=min(2 * n + 10, 45), scale=1.0, limit=False))
    return out


def _record(sc):
    try:
        return record(sc)
    except Exception as e:  # noqa
        return dict(error="harness: " + exc_summary(e))


def validate(traces, tag):
    path = os.path.join(core.WORK, "traces_%s.json" % tag)
    with open(path, "w") as f:
        json.dump(traces, f)
    r = tlc.run("Trace_C08", "c08.trace." + tag, dict(CgVariant="code"), workers=1, timeout=3000, env=dict(TRACE_FILE=path), heap="8g")
    verdicts = {}
    for v in r["out"]:
        verdicts[v["tid"]] = v
    return r, verdicts


def run(tier, seed):
    res = core.Result(PROP, tier, seed)
    # (1) control layer
    r = tlc.run("MC_C08", "c08.mc." + tier, dict(CgVariant="code", MaxIterBound=14 if tier == "quick" else 16, Emit=False), invariants=CTL_INVS, view="View", timeout=1800)
    if r["violated"]:
        raise core.MachineryError("control model violates %s" % r["violated"])
    res.add_tlc("MC_C08", r)
    rl = tlc.run("MC_C08", "c08.live." + tier, dict(CgVariant="code", MaxIterBound=5 if tier == "quick" else 6, Emit=False), properties=["Termination"], spec="FairSpec", timeout=1800)
    if rl["violated"]:
        raise core.MachineryError("control model: the loop does not always terminate (%s)" % rl["violated"])
    res.add_tlc("MC_C08(liveness)", rl)
    rej = {}
    for v, inv in CTL_VARIANTS.items():
        rv = tlc.run("MC_C08", "c08.mc.%s.%s" % (tier, v), dict(CgVariant=v, MaxIterBound=12, Emit=False), invariants=CTL_INVS, view="View", timeout=1800)
        rej[v] = rv["violated"]
        if rv["violated"] != inv:
            raise core.MachineryError("slipped control variant %s not rejected by %s (got %s)" % (v, inv, rv["violated"]))
    res.notes["slipped_control_variants_rejected_by"] = rej
    # (2) recorded executions
    scs = scenarios(tier, seed)
    recs = core.pmap(_record, scs, chunksize=2)
    traces, harness_err = [], []
    for sc, t in zip(scs, recs):
        if "error" in t:
            harness_err.append((sc, t["error"]))
            continue
        t["tid"] = sc["id"]
        traces.append(t)
    # canaries: corrupted recordings must be rejected by the trace specification
    can = []
    # canaries are synthetic (a broken library must not be able to take them away): an all-good trace, then one field corrupted each
    base = dict(cfg=dict(n=8, max_iter=6, max_tri=6, n_tri=0, by_size=False, nan=False, ncols=1, lgtol=-6644, lgfloor=-26575, lgrho=-1000, zero=[False], dt="f64", all_conv0=False),
                steps=[dict(err=[-1000 * j], res=[-1000 * j], changed=[j > 0], warned=j < 6, meanres=-1000 * j, it=j) for j in range(0, 7)],
                final=dict(raised=False, warned=True, iters=6, meanres=-6000, tside=0, tsym=True, ritz=True, quad=NA, lanczos=NA, zero_ok=True, scale=NA, precond=NA,
                           obs=[[False, False]] * 6, budget_applies=False))
    base["steps"][6]["warned"] = True
    c0 = json.loads(json.dumps(base)); c0["tid"] = 900000
    c1 = json.loads(json.dumps(base)); c1["tid"] = 900001; c1["steps"][2]["err"][0] = c1["steps"][1]["err"][0] + 500
    c1["steps"][2]["res"][0] = max(c1["steps"][2]["res"][0], c1["cfg"]["lgfloor"] + 10); c1["steps"][1]["res"][0] = max(c1["steps"][1]["res"][0], c1["cfg"]["lgfloor"] + 10)
    c2 = json.loads(json.dumps(base)); c2["tid"] = 900002; c2["final"]["warned"] = False; c2["final"]["meanres"] = c2["cfg"]["lgtol"] + 3000
    can = [c1, c2]
    tr, verdicts = validate(traces + can + [c0], tier)
    res.add_tlc("Trace_C08", tr)
    if verdicts.get(900000, {}).get("fails") != [] or not verdicts.get(900001, {}).get("fails") or not verdicts.get(900002, {}).get("fails"):
        raise core.MachineryError("canary traces: the good one must be accepted, the corrupted ones rejected by Trace_C08: %s" % [verdicts.get(k) for k in (900000, 900001, 900002)])
    drift = 0
    for sc, t in zip(scs, recs):
        key = "%s|n=%d|%s|%s" % (sc["precond"], sc["n"], sc["dt"], "tri" if sc["n_tri"] else "solve")
        if "error" in t:
            res.violation("%s|harness|%s|%s" % (PROP, sc["precond"], core.failure_kind(dict(kind="raised", msg=t["error"]))),
                          "scenario %s: %s" % (_short(sc), t["error"]), dict(scenario=sc))
            continue
        res.traces += 1
        res.evaluations += len(t["steps"]) + 1
        res.nontrivial.add(key)
        v = verdicts.get(sc["id"])
        if v is None:
            raise core.MachineryError("no verdict for trace %d" % sc["id"])
        drift += bool(v["drift"])
        clauses = sorted({f.split("@")[0] for f in v["fails"]})
        for cl in clauses:
            first = next(f for f in v["fails"] if f.split("@")[0] == cl)
            sig = "%s|%s|%s|%s" % (PROP, cl, sc["precond"].split("*")[0], sc["dt"])
            res.violation(sig, "scenario %s: clause %s of LOCG fails (%s)" % (_short(sc), cl, first), dict(scenario=sc))
    res.notes["control_model_drift_traces"] = drift
    res.notes["traces_with_tridiagonal"] = sum(1 for s in scs if s["n_tri"])
    res.samples = [dict(scenario=_short(s)) for s in scs[:3]]
    res.rule = ("seeded drivers over spectrum family x condition number (1..1e6) x size 1..64 x batch x columns (zero / tiny / huge) x initial guess x "
                "preconditioner (none, Jacobi, exact, low-rank+diag, rescaled) x tolerance x max_iter x tridiagonal requests x terminate_cg_by_size x dtype x eps; "
                "every budget 1..K recorded and validated by TLC against the clauses of LOCG")
    res.exhaustive = False
    res.assumptions = ["norms are evaluated in float64 by the recorder and lg-encoded (1/1000 of a binade)",
                       "convergence clauses apply above the accuracy floor stated in the property (relative residual 1e-4 for the default eps, 1e-9 otherwise, 1e-3 in float32)",
                       "Lanczos-coefficient comparison for kappa <= 1e2 and the first 8 coefficients; quadrature identity at full dimension for kappa <= 1e4"]
    return res


def _short(sc):
    return {k: sc[k] for k in ("id", "n", "family", "kappa", "batch", "ncols", "cols", "guess", "precond", "tol", "max_iter", "n_tri", "max_tri", "by_size", "dt", "eps", "nan", "scale")}


def replay(rec, path):
    sc = rec["scenario"]
    t = _record(sc)
    if "error" in t:
        print("  ", t["error"])
        print("VIOLATION property=%s replay=%s" % (PROP, path))
        return 1
    t["tid"] = sc["id"]
    _, verdicts = validate([t], "replay")
    v = verdicts[sc["id"]]
    if v["fails"]:
        print("  failing clauses:", v["fails"])
        print("VIOLATION property=%s replay=%s" % (PROP, path))
        return 1
    print("now conforms")
    return 0
