"""C18 - Gaussian sampling uses a true square root of the covariance (spec/MC_C06.tla, relation "cov").

zero_mean_mvn_samples is a linear map J from the noise tensor(s) to the draws; torch.randn is replaced by one-hot tensors to recover J
exactly (harness/numeric.py), and J J^T must be block diagonal over samples and batch members with blocks equal to the represented matrix,
with output shape (k, *batch, n) - for the generic sampler, every specialised sampler, and the contour-integral variant.
"""
from . import c06

PROP = "C18"


def run(tier, seed):
    res, behs = c06._run(tier, seed, PROP, True)
    res.rule = ("PSD class (22) x batch x k in {1, 2} x thresholds (max_cholesky_size / max_root_decomposition_size on both sides of n, fast "
                "covar_root_decomposition on/off) + contour-integral sampling; the sampler's Jacobian is recovered exactly with one-hot noise")
    res.exhaustive = tier == "thorough"
    res.assumptions = ["samplers are linear in torch.randn noise (verified: the Jacobian reproduces real draws)", "Lanczos-based roots below rank n are compared only for shape / independence structure"]
    return res


replay = c06.replay
