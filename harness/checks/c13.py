"""C13 - no operation mutates caller-owned tensors or an existing operator's matrix (spec/LOFrame.tla, spec/MC_C13.tla).

1. TLC executes the transcribed buffer-handling programs of linear_cg / psd_safe_cholesky / pivoted Cholesky / Lanczos on the abstract
   alias model for every layout of every caller argument (NoCallerWrite) and rejects four variants without a defensive copy.
2. TLC enumerates operation x argument role x layout x operator class x solver-path cases; each case is one real call with the arguments
   built in the requested layout (contiguous, expanded stride-0, transposed view, slice sharing storage with other data); after the call
   every caller cell (argument base storages and every tensor defining the operator) must have the same _version and the same bits,
   and the operator must densify to the same matrix.
"""
import warnings

import torch

from .. import bind, core, tlc

PROP = "C13"
N = 4


# ------------------------------------------------------------------ argument construction
def _base_value(role, n, batch, dtype, seed, shape=None):
    g = torch.Generator().manual_seed(seed)
    r = lambda *s: torch.randint(-3, 4, s, generator=g).to(dtype)
    if role in ("rhs", "rhs2"):
        return r(*batch, n if shape is None else shape[-1], 2)          # (rectangular operators: as many rows as the operator has columns)
    if role == "lhs":
        return r(*batch, 2, n if shape is None else shape[-2])
    if role == "probes":
        return r(n if shape is None else shape[-1], 3) + 0.5
    if role in ("init", "test", "lowrank"):
        return r(*batch, n, 1) + 0.5
    if role == "guess":
        return r(*batch, n, 2)
    if role == "diag":
        return r(*batch, n).abs() + 1
    if role == "cross":
        return (r(*batch, 2, n) / 4)
    if role == "new":
        return torch.eye(2, dtype=dtype).expand(*batch, 2, 2) * 20 + 1
    if role == "const":
        return (r(*batch, 1, 1).abs() + 1)
    if role == "mat":
        M = r(*batch, n, n)
        return M @ M.mT + n * torch.eye(n, dtype=dtype)
    if role == "shifts":
        return torch.tensor([0.0, 1.0, 2.5], dtype=dtype)
    if role in ("col", "row"):
        c = r(*batch, n)
        c[..., 0] = 2 * n + 1
        return c
    if role == "index":
        return torch.randint(0, n, (3,), generator=g)
    if role == "index_neg":
        return torch.tensor([-1, 0, -2])          # negative entries: normalising them must not happen in the caller's tensor
    if role == "iidx":
        return torch.randint(0, n, (*batch, n, 2), generator=g)
    if role == "ivals":
        return r(*batch, n, 2)
    if role == "perm":
        return torch.stack([torch.randperm(n, generator=g) for _ in range(max(1, int(torch.tensor(batch).prod()) if batch else 1))]).reshape(*batch, n)
    raise KeyError(role)


def _layout(x, layout):
    """-> (tensor handed to the library, list of base tensors whose storage the caller owns)"""
    if layout == "contig" or x.dim() == 0:
        t = x.clone()
        return t, [t]
    if layout == "expanded":
        # stride-0 expansion of the first element along the last dimension (the values passed are the expanded ones)
        base = x[..., :1].clone()
        return base.expand(x.shape), [base]
    if layout == "transposed":
        if x.dim() < 2:
            big = torch.stack([x, x + 1], dim=-1).contiguous()   # non-contiguous 1-D view
            return big[..., 0], [big]
        base = x.mT.contiguous()
        return base.mT, [base]
    if layout == "slice":
        pad = torch.full_like(x.select(0, 0).unsqueeze(0), 7) if x.dim() >= 1 else None
        big = torch.cat([pad, x, pad], dim=0).contiguous()
        return big[1:-1], [big]
    raise KeyError(layout)


class Cells:
    def __init__(self):
        self.cells = []

    def add(self, name, t):
        self.cells.append((name, t, t._version, t.detach().clone()))

    def changed(self):
        out = []
        for name, t, v, c in self.cells:
            same = torch.equal(torch.nan_to_num(t.detach().to(torch.float64), nan=1e300), torch.nan_to_num(c.to(torch.float64), nan=1e300))
            if t._version != v or not same or t.shape != c.shape:
                out.append("%s: version %d -> %d, contents %s" % (name, v, t._version, "unchanged" if same else "CHANGED"))
        return out


# ------------------------------------------------------------------ the calls
def _call(case, op, a, dtype):
    import linear_operator
    from linear_operator import settings, utils
    from linear_operator.utils import cholesky, interpolation, lanczos, permutation, sparse, toeplitz
    from linear_operator.utils.linear_cg import linear_cg
    from linear_operator.utils.minres import minres
    from linear_operator.utils.contour_integral_quad import contour_integral_quad
    from linear_operator.utils.qr import stable_qr
    from linear_operator.utils.pinverse import stable_pinverse

    name = case["op"]
    if name == "matmul":
        return op @ a["rhs"]
    if name == "rmatmul":
        return a["lhs"] @ op
    if name == "solve":
        return op.solve(a["rhs"])
    if name == "solve_lhs":
        return op.solve(a["rhs"], a["lhs"])
    if name == "inv_quad":
        return op.inv_quad(a["rhs"])
    if name == "inv_quad_logdet":
        return op.inv_quad_logdet(a["rhs"], logdet=True)
    if name == "sqrt_inv_matmul":
        return op.sqrt_inv_matmul(a["rhs"])
    if name == "sqrt_inv_matmul_lhs":
        return op.sqrt_inv_matmul(a["rhs"], a["lhs"])
    if name == "root_inv_decomposition_vecs":
        return op.root_inv_decomposition(initial_vectors=a["init"], test_vectors=a["test"], method="lanczos").root.to_dense()
    if name == "add_diagonal":
        return op.add_diagonal(a["diag"]).to_dense()
    if name == "add_low_rank":
        return op.add_low_rank(a["lowrank"]).to_dense()
    if name == "cat_rows":
        return op.cat_rows(a["cross"], a["new"]).to_dense()
    if name == "getitem_tensor":
        i = a["index"]
        return [linear_operator.to_dense(op[..., i, :]), op[..., i, i], linear_operator.to_dense(op[..., :, i])]
    if name == "getitem_tensor_neg":
        i = a["index_neg"]
        return [linear_operator.to_dense(op[..., i, :]), op[..., i, i], linear_operator.to_dense(op[..., :, i]), linear_operator.to_dense(op[..., i, 1:])]
    if name == "mul_const":
        return (op * a["const"]).to_dense()
    if name == "add_tensor":
        return [(op + a["mat"]).to_dense(), (a["mat"] - op).to_dense()]
    if name == "noarg_queries":
        out = [op.to_dense(), op.diagonal(), op.logdet(), op.cholesky().to_dense(), op.root_decomposition().root.to_dense(),
               op.root_inv_decomposition().root.to_dense(), op.eigh(), op.svd(), op.pivoted_cholesky(rank=3), op.zero_mean_mvn_samples(2),
               op.clone().to_dense(), op.detach().to_dense(), op.mT.to_dense(), op._preconditioner()]
        return out
    if name == "inv_quad_logdet_probes":
        with settings.max_cholesky_size(0), settings.num_trace_samples(3), settings.deterministic_probes(True), settings.max_preconditioner_size(0):
            settings.deterministic_probes.probe_vectors = a["probes"]
            try:
                return [op.inv_quad_logdet(a["rhs"], logdet=True), op.inv_quad_logdet(a["rhs"], logdet=True)]
            finally:
                settings.deterministic_probes.probe_vectors = None
    if name in ("methods", "methods_tiny"):
        out = []
        for f in ([lambda m=m: op.root_decomposition(method=m).root.to_dense() for m in ("symeig", "diagonalization", "svd", "pivoted_cholesky", "lanczos")]
                  + [lambda m=m: op.root_inv_decomposition(method=m).root.to_dense() for m in ("symeig", "diagonalization", "svd", "pinverse", "lanczos")]
                  + [lambda: op.diagonalization(), lambda: op.eigvalsh(), lambda: op.inverse().to_dense(), lambda: op.sqrt().to_dense(),
                     lambda: op.exp().to_dense(), lambda: op.log().to_dense(), lambda: op.abs().to_dense()]):
            try:
                out.append(f())
            except Exception as e:  # noqa  (unsupported on this class: not this property's business - but a refused in-place write is)
                if any(k in str(e) for k in ("refers to a single memory location", "is being used in an in-place operation", "in-place operation")):
                    raise
        return out
    # ---- utilities
    M = a.get("mat")
    if name == "linear_cg":
        A = _base_value("mat", N, tuple(case["b"]), dtype, 5)
        return linear_cg(A.matmul, a["rhs"], initial_guess=a["guess"], max_iter=20, tolerance=1e-6)
    if name == "linear_cg_tridiag":
        A = _base_value("mat", N, tuple(case["b"]), dtype, 5)
        return linear_cg(A.matmul, a["rhs"], n_tridiag=2, max_iter=10, max_tridiag_iter=4, tolerance=1e-6,
                         preconditioner=lambda x: x / 2.0)
    if name == "minres":
        A = _base_value("mat", N, tuple(case["b"]), dtype, 5)
        return minres(A.matmul, a["rhs"], shifts=a["shifts"], max_iter=20)
    if name == "lanczos_tridiag":
        A = _base_value("mat", N, tuple(case["b"]), dtype, 5)
        return lanczos.lanczos_tridiag(A.matmul, 4, dtype=dtype, device=A.device, matrix_shape=A.shape[-2:], batch_shape=A.shape[:-2],
                                       init_vecs=a["init"])
    if name == "psd_safe_cholesky":
        return [cholesky.psd_safe_cholesky(M), cholesky.psd_safe_cholesky(M, upper=True)]
    if name == "psd_safe_cholesky_jitter":
        return [cholesky.psd_safe_cholesky(M, jitter=1e-3), cholesky.psd_safe_cholesky(M, upper=True, jitter=1e-3)]
    if name == "stable_qr":
        return stable_qr(M)
    if name == "stable_pinverse":
        return stable_pinverse(M)
    if name == "toeplitz_matmul":
        row = a["row"]
        return toeplitz.toeplitz_matmul(a["col"], row, a["rhs"])
    if name == "sym_toeplitz_matmul":
        return toeplitz.sym_toeplitz_matmul(a["col"], a["rhs"])
    if name == "sym_toeplitz_derivative_quadratic_form":
        return toeplitz.sym_toeplitz_derivative_quadratic_form(a["rhs"].mT.contiguous() if False else a["rhs"], a["rhs2"])
    if name == "left_interp":
        return interpolation.left_interp(a["iidx"], a["ivals"], a["rhs"])
    if name == "left_t_interp":
        return interpolation.left_t_interp(a["iidx"], a["ivals"], a["rhs"], N)
    if name == "apply_permutation":
        return [permutation.apply_permutation(M, a["perm"], a["perm"]), permutation.apply_permutation(M, left_permutation=a["perm"])]
    if name == "inverse_permutation":
        return permutation.inverse_permutation(a["perm"])
    if name == "pivoted_cholesky_tensor":
        return linear_operator.pivoted_cholesky(M, rank=3)
    if name == "sparse_utils":
        sp = sparse.make_sparse_from_indices_and_values(a["iidx"], a["ivals"], N)
        d = _base_value("rhs", N, tuple(case["b"]), dtype, 9)
        return [sparse.bdsmm(sp, d), sparse.sparse_getitem(sp, (Ellipsis, slice(0, 2), slice(None))) if sp.dim() == 2 else None]
    if name == "contour_integral_quad":
        from linear_operator.operators import DenseLinearOperator

        A = DenseLinearOperator(_base_value("mat", N, tuple(case["b"]), dtype, 5))
        return contour_integral_quad(A, a["rhs"], inverse=True, num_contour_quadrature=7)
    raise KeyError(name)


def run_case(case):
    """-> list of messages (empty = frame condition held); unsupported-call exceptions are not this property's business"""
    from linear_operator import settings

    warnings.simplefilter("ignore")
    dtype = torch.float64 if case["seed"] % 2 == 0 else torch.float32
    batch = tuple(case["b"])
    cells = Cells()
    op = None
    leaves = []
    if case["kind"] == "op":
        op = bind.build(case["term"], dtype, leaves)
        for i, t in enumerate(leaves):
            cells.add("operator tensor #%d" % i, t)
    if case["op"] == "methods_tiny" and op is not None:
        # the same operator in units of 1e-9 (all entries below the 1e-7 clamps used by some decompositions): it exists before the call,
        # so neither its defining tensors nor its matrix may change
        try:
            op = op * 1e-9
            for i, t in enumerate(a_ for a_ in list(op._args) + list(op._kwargs.values()) if torch.is_tensor(a_)):
                cells.add("tensor #%d of the scaled operator" % i, t)
        except Exception:  # noqa
            pass
    args = {}
    for role, lay in zip(case["roles"], case["layouts"]):
        x = _base_value(role, N, batch, dtype, case["seed"] + len(args), None if op is None else tuple(op.shape))
        if case["op"] == "psd_safe_cholesky_jitter":
            x = torch.ones(*batch, N, N, dtype=dtype)      # singular PSD: forces the jitter path (which works on a clone)
        t, bases = _layout(x, lay)
        args[role] = t
        for b in bases:
            cells.add("argument %s (%s)" % (role, lay), b)
    msgs = []
    INPLACE = ("refers to a single memory location", "is being used in an in-place operation", "in-place operation")
    try:
        dense0 = op.to_dense().clone() if op is not None else None
    except Exception as e:  # noqa
        dense0 = None
        if any(k in str(e) for k in INPLACE):
            msgs.append("densifying the operator attempts an in-place write into a tensor it does not own (%s)" % str(e).split("\n")[0][:100])
    try:
        if case["cg"]:
            with settings.max_cholesky_size(0), settings.max_cg_iterations(50), settings.min_preconditioning_size(1), settings.num_trace_samples(3):
                _call(case, op, args, dtype)
        else:
            _call(case, op, args, dtype)
    except Exception as e:  # whether a call is supported is judged by other properties; a failed call must still not have written
        msgs_exc = "%s: %s" % (type(e).__name__, str(e).split("\n")[0][:80])
        if any(k in str(e) for k in INPLACE):
            # torch refused an in-place write into expanded / shared memory: the write was aimed at memory the callee does not own
            msgs.append("the call attempts an in-place write into an expanded or shared tensor (%s)" % str(e).split("\n")[0][:100])
    else:
        msgs_exc = None
    msgs += cells.changed()
    if op is not None:
        try:
            d1 = bind.build(case["term"], dtype).to_dense()
            # the operator object must still represent the same matrix (recomputed from its own, possibly touched, tensors)
            now = type(op)(*op._args, **op._kwargs).to_dense()
            if dense0 is not None and not torch.equal(torch.nan_to_num(now), torch.nan_to_num(dense0)):
                msgs.append("the pre-existing operator now represents a different matrix")
        except Exception:
            pass
    return msgs, msgs_exc


def _replay(case):
    return run_case(case)


def run(tier, seed):
    res = core.Result(PROP, tier, seed)
    r0 = tlc.run("LOFrame", "c13.model", constants=dict(Variant="code"), invariants=["NoCallerWrite"], workers=4, timeout=600, heap="2g")
    res.add_tlc("LOFrame[code]", r0)
    if r0["violated"]:
        raise core.MachineryError("alias model of the solvers violates NoCallerWrite:\n" + r0["text"][-1500:])
    rej = 0
    for v in ("cg_inplace_guess", "chol_no_clone", "pivchol_no_clone", "cg_inplace_rhs"):
        rv = tlc.run("LOFrame", "c13.var." + v, constants=dict(Variant=v), invariants=["NoCallerWrite"], workers=4, timeout=600, heap="2g")
        if not rv["violated"]:
            raise core.MachineryError("non-vacuity self-test failed: variant %s (no defensive copy) was accepted" % v)
        rej += 1
    res.notes["variants_without_defensive_copy_rejected"] = rej
    r = tlc.run("MC_C13", "c13.cases." + tier, constants=dict(Tier=tier, Seed=seed, ValSeed=seed), properties=["Frame"], workers=16, timeout=1800, heap="8g")
    res.add_tlc("MC_C13", r)
    cases = sorted(r["out"], key=lambda c: (c["kind"], c["op"], c["cls"], str(c["b"]), str(c["layouts"]), c["cg"]))
    # canary: an operation that does write must be reported
    x = torch.ones(3)
    cc = Cells()
    cc.add("x", x)
    x.view(-1)[0] = 2.0
    if not cc.changed():
        raise core.MachineryError("canary: in-place write not detected")
    outs = core.pmap(_replay, cases, chunksize=4)
    nraised = 0
    for case, (msgs, exc) in zip(cases, outs):
        res.traces += 1
        res.evaluations += 1 + len(case["roles"])
        nraised += exc is not None
        res.nontrivial.add((case["op"], case["cls"], tuple(case["layouts"]), case["cg"], tuple(case["b"])))
        for m in msgs:
            role = m.split(":")[0]
            sig = "%s|%s|%s|%s" % (PROP, case["op"], case["cls"], role.split(" (")[0])
            res.violation(sig, "%s on %s batch=%s layouts=%s cg-path=%s: %s" % (case["op"], case["cls"], case["b"], dict(zip(case["roles"], case["layouts"])),
                                                                              case["cg"], m), dict(case=case))
    res.notes["calls_that_raised_(not_judged_here)"] = nraised
    res.samples = [dict(op=c["op"], cls=c["cls"], batch=c["b"], layouts=dict(zip(c["roles"], c["layouts"])), cg_path=c["cg"]) for c in cases[:5]]
    res.rule = ("operation x argument role x layout {contiguous, expanded stride-0, transposed view, slice of a larger storage} x operator class x "
                "batch x {direct, CG/Lanczos path} enumerated by TLC; every caller cell compared (version + bits) after the call; distinct = the tuple")
    res.exhaustive = tier == "thorough"
    res.assumptions = ["torch's _version counter is incremented by every in-place write to a tensor or a view of it"]
    return res


def replay(rec, path):
    msgs, exc = run_case(rec["case"])
    for m in msgs:
        print("  ", m)
    if msgs:
        print("VIOLATION property=%s replay=%s" % (PROP, path))
        return 1
    print("case now conforms")
    return 0
