"""C16 - psd_safe_cholesky perturbs minimally, per batch member, or fails loudly (spec/LOPsdChol.tla).

TLC checks that the implementation-shaped retry loop refines the ideal per-member minimal-jitter semantics for every batch of up
to 3 members over 8 exact integer member kinds x max_tries x upper, and that four realistic slips of the loop are rejected.
Every terminal behaviour (members, expected outcome, per-member jitter, attempt trace) is replayed into
linear_operator.utils.cholesky.psd_safe_cholesky in float32/64, with explicit arguments, through the settings, with out=, and
through DenseLinearOperator.cholesky(); torch.linalg.cholesky_ex is wrapped to record the attempts, which are validated against
the property-level trace conditions (jitter per member is monotone and only grows on members whose last attempt failed).
"""
import copy
import warnings

import torch

from .. import core, tlc

PROP = "C16"


def _build(beh, dtype):
    A = torch.tensor(beh["mats"], dtype=dtype)
    for b, k in enumerate(beh["ms"]):
        if k == "nan":
            A[b, 0, 1] = float("nan")
            A[b, 1, 0] = float("nan")
    return A


class _Recorder:
    def __init__(self, A):
        self.A = A
        self.attempts = []
        self.orig = torch.linalg.cholesky_ex

    def __enter__(self):
        def wrapped(X, *a, **k):
            r = self.orig(X, *a, **k)
            if X.shape == self.A.shape:
                d = (X.diagonal(dim1=-1, dim2=-2)[..., 0] - self.A.diagonal(dim1=-1, dim2=-2)[..., 0])
                self.attempts.append(([float(v) for v in d.reshape(-1)], [bool(v) for v in (r[1] > 0).reshape(-1)]))
            return r

        torch.linalg.cholesky_ex = wrapped
        return self

    def __exit__(self, *a):
        torch.linalg.cholesky_ex = self.orig


def _call(beh, dtype, mode):
    """-> list of failure messages"""
    from linear_operator import settings
    from linear_operator.operators import DenseLinearOperator
    from linear_operator.utils.cholesky import psd_safe_cholesky
    from linear_operator.utils.errors import NanError, NotPSDError
    from linear_operator.utils.warnings import NumericalWarning

    A = _build(beh, dtype)
    A0 = A.clone()
    ver = A._version
    upper = bool(beh["upper"])
    k = beh["max_tries"]
    jb = float(beh.get("jbase", 1))
    fails = []
    out_buf = torch.empty_like(A) if mode == "out" else None
    rec = _Recorder(A0)
    res = exc = None
    with warnings.catch_warnings(record=True) as w, rec:
        warnings.simplefilter("always")
        try:
            if mode == "args":
                res = psd_safe_cholesky(A, upper=upper, jitter=jb, max_tries=k)
            elif mode == "out":
                res = psd_safe_cholesky(A, upper=upper, out=out_buf, jitter=jb, max_tries=k)
            elif mode == "settings":
                # the context object is entered again while it is active (a helper re-using the caller's context): neither the values
                # inside the outer block nor the values after it may be disturbed
                before = (settings.cholesky_jitter.value(torch.float32), settings.cholesky_jitter.value(torch.float64), settings.cholesky_max_tries.value())
                ctx = settings.cholesky_jitter(float_value=jb, double_value=jb)
                try:
                    with ctx, settings.cholesky_max_tries(k):
                        with ctx:
                            pass
                        res = psd_safe_cholesky(A, upper=upper)
                finally:
                    after = (settings.cholesky_jitter.value(torch.float32), settings.cholesky_jitter.value(torch.float64), settings.cholesky_max_tries.value())
                    if after != before:
                        fails.append("settings not restored after the block: cholesky_jitter / cholesky_max_tries %s -> %s" % (before, after))
                        settings.cholesky_jitter._set_value(before[0], before[1], None)
            elif mode == "operator":
                with settings.cholesky_jitter(float_value=jb, double_value=jb), settings.cholesky_max_tries(k):
                    res = DenseLinearOperator(A).cholesky(upper=upper).to_dense()
        except Exception as e:  # noqa
            exc = e
    nw = sum(1 for x in w if issubclass(x.category, NumericalWarning))
    # ---- input untouched
    if A._version != ver or not torch.equal(torch.nan_to_num(A, nan=12345.0), torch.nan_to_num(A0, nan=12345.0)):
        fails.append("input matrix A was modified in place")
    exp = beh["outcome"]
    if exp == "nan":
        if not isinstance(exc, NanError):
            fails.append("expected NanError, got %s" % (type(exc).__name__ if exc else "a result"))
        return fails, rec.attempts
    if exp == "notpsd":
        if not isinstance(exc, NotPSDError):
            fails.append("expected NotPSDError, got %s" % (type(exc).__name__ if exc else "a result"))
        return fails, rec.attempts
    if exc is not None:
        fails.append("expected a factor, got %s: %s" % (type(exc).__name__, str(exc)[:100]))
        return fails, rec.attempts
    L = out_buf if (mode == "out" and res is None) else res
    if mode == "out" and res is not None and res.data_ptr() != out_buf.data_ptr() and not torch.equal(res, out_buf.mT if upper else out_buf) and not torch.equal(res, out_buf):
        pass
    if not torch.isfinite(L).all():
        fails.append("factor contains NaN / Inf")
        return fails, rec.attempts
    tri = torch.triu(L) if upper else torch.tril(L)
    if not torch.equal(tri, L):
        fails.append("factor is not %s triangular" % ("upper" if upper else "lower"))
    jit = torch.tensor(beh["jit"], dtype=dtype)
    target = A0 + jit.view(-1, 1, 1) * torch.eye(A0.shape[-1], dtype=dtype)
    prod = (L.mT @ L) if upper else (L @ L.mT)
    tol = 1e-4 if dtype == torch.float32 else 1e-10
    err = float((prod - target).abs().max())
    if err > tol * float(target.abs().max()):
        got_j = (prod - A0).diagonal(dim1=-1, dim2=-2).mean(-1)
        fails.append("factor does not factorize A + jitter_b I with the minimal per-member jitter %s: |LL^T - target| = %.3g (diagonal excess per member %s)"
                     % (beh["jit"], err, [round(float(v), 3) for v in got_j]))
    if (nw > 0) != (beh["nwarn"] > 0):
        fails.append("NumericalWarning %s but jitter %s" % ("emitted" if nw else "not emitted", "was not needed" if not beh["nwarn"] else "was added"))
    # ---- property-level trace conditions on the recorded cholesky_ex attempts
    at = rec.attempts
    for t in range(1, len(at)):
        for b in range(len(at[t][0])):
            if at[t][0][b] < at[t - 1][0][b] - 1e-6:
                fails.append("attempt %d: jitter of member %d decreased" % (t, b))
            if at[t][0][b] > at[t - 1][0][b] + 1e-6 and not at[t - 1][1][b]:
                fails.append("attempt %d: member %d received more jitter although its previous attempt succeeded" % (t, b))
    return fails, at


def _replay(beh):
    out = []
    for dtype in (torch.float64, torch.float32):
        for mode in ("args", "settings", "out", "operator"):
            if mode == "operator" and (beh["outcome"] != "ok" or any(len(m) != len(beh["mats"][0]) for m in beh["mats"])):
                continue
            fails, attempts = _call(beh, dtype, mode)
            for f in fails:
                out.append((str(dtype).split(".")[-1], mode, f))
    return out


def run(tier, seed):
    res = core.Result(PROP, tier, seed)
    mb = 2 if tier == "quick" else 3
    inv = ["RefinesOutcome", "RefinesJitter", "NoBadFactor", "WarnIffJitter", "EmitInv"]
    r = tlc.run("LOPsdChol", "c16." + tier, constants=dict(MaxBatch=mb, Variant="code", Emit=True), invariants=inv,
                properties=["MonotoneJitter"], workers=16, timeout=1800, heap="8g")
    res.add_tlc("LOPsdChol[code]", r)
    if r["violated"]:
        raise core.MachineryError("retry-loop model violates %s:\n%s" % (r["violated"], r["text"][-2000:]))
    rejected = 0
    for v in ("frozen_mask", "add_full", "all_members", "extra_try") if tier == "thorough" else ("frozen_mask", "add_full"):
        rv = tlc.run("LOPsdChol", "c16.var." + v, constants=dict(MaxBatch=mb, Variant=v, Emit=False), invariants=inv[:4], workers=16,
                     timeout=1800, heap="8g")
        if not rv["violated"]:
            raise core.MachineryError("non-vacuity self-test failed: loop variant %s was accepted" % v)
        rejected += 1
    res.notes["defective_loop_variants_rejected"] = rejected
    behs = r["out"]
    # canary
    b0 = copy.deepcopy(next(b for b in behs if b["outcome"] == "ok" and any(j > 0 for j in b["jit"])))
    b0["jit"] = [j * 10 if j else j for j in b0["jit"]]
    if not _replay(b0):
        raise core.MachineryError("canary: corrupted expected jitter was not rejected")
    outs = core.pmap(_replay, behs, chunksize=4)
    for beh, o in zip(behs, outs):
        res.traces += 1
        res.evaluations += 8
        res.nontrivial.add((tuple(beh["ms"]), beh["max_tries"], beh["upper"]))
        for dt, mode, msg in o:
            kind = msg.split(":")[0][:60]
            sig = "%s|%s|%s|upper=%d|%s" % (PROP, mode, beh["outcome"], beh["upper"], kind)
            res.violation(sig, "members=%s max_tries=%d upper=%d dtype=%s via %s: %s" % (beh["ms"], beh["max_tries"], beh["upper"], dt, mode, msg),
                          dict(behaviour=beh))
    res.samples = [dict(members=b["ms"], max_tries=b["max_tries"], upper=b["upper"], outcome=b["outcome"], jitter=b["jit"],
                        attempts=b["attempts"]) for b in behs[:3]]
    res.rule = ("all batches of up to %d members over 8 exact integer member kinds (PD 2x2/3x3, singular, indefinite at three depths, hopeless, "
                "NaN) x max_tries 1..3 x upper; each terminal behaviour replayed in float32/64 via explicit args, settings, out= and "
                "DenseLinearOperator.cholesky" % mb)
    res.exhaustive = True
    res.assumptions = ["definiteness of the integer members under integer jitter is exact in IEEE arithmetic (entries <= 2000)"]
    return res


def replay(rec, path):
    o = _replay(rec["behaviour"])
    for x in o:
        print("  ", x)
    if o:
        print("VIOLATION property=%s replay=%s" % (PROP, path))
        return 1
    print("behaviour now conforms")
    return 0
