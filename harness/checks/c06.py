"""C06 - every factorization returned really factorizes the operator (spec/MC_C06.tla).  Also hosts the sampling relation of C18."""
import contextlib
import copy

import torch

from .. import bind, core, numeric, tlc
from ..replay import exc_summary

PROP = "C06"
METHOD = {"none": None}


def _query(op, q, m, dtype):
    meth = METHOD.get(m, m)
    if q == "cholesky":
        return op.cholesky(upper=(m == "upper"))
    if q == "linalg_cholesky":
        return torch.linalg.cholesky(op)
    if q == "root_decomposition":
        return op.root_decomposition(method=meth).root
    if q == "root_inv_decomposition":
        return op.root_inv_decomposition(method=meth).root
    if q == "root_after_inv_vecs1":
        # the Lanczos inverse root from ONE supplied start vector stores its by-product as the operator's root decomposition
        v = torch.randn(*op.shape[:-1], 1, dtype=op.dtype)
        op.root_inv_decomposition(initial_vectors=v, method="lanczos")
        return op.root_decomposition().root
    if q == "eigh":
        return op.eigh()
    if q == "linalg_eigh":
        return torch.linalg.eigh(op)
    if q == "eigvalsh":
        return op.eigvalsh()
    if q == "linalg_eigvalsh":
        return torch.linalg.eigvalsh(op)
    if q == "svd":
        return op.svd()
    if q == "svd_after_jitter_svd":
        op.add_jitter(0.5).svd()
        return op.svd()
    if q == "eigh_after_jitter_eigh":
        op.add_jitter(0.5).eigh()
        return op.eigh()
    if q == "linalg_svd":
        U, S, Vh = torch.linalg.svd(op)
        return U, S, numeric.dense(Vh).mT
    if q == "diagonalization":
        return op.diagonalization(method=meth)
    raise KeyError(q)


def _compression(R, target):
    """orthogonal compression of `target` onto span(R):  Q Q^T target Q Q^T with Q an orthonormal basis of the column space of R"""
    U, S, _ = torch.linalg.svd(R, full_matrices=False)
    keep = S > 1e-7 * S.max(-1, keepdim=True)[0].clamp_min(1e-300)
    Q = U * keep.unsqueeze(-2).to(U.dtype)
    P = Q @ Q.mT
    return P @ target @ P, int(keep.sum(-1).min())


def check(beh):
    """-> (list of messages, info)"""
    from linear_operator import settings as S

    d = beh["desc"]
    dtype = bind.DT[d["dt"]]
    A = bind.tensor(beh["dense"], torch.float64)
    n = A.shape[-1]
    eye = torch.eye(n, dtype=torch.float64).expand_as(A)
    kappa = min(1e5, float(torch.linalg.cond(A).max()))
    eps = 1.2e-7 if dtype == torch.float32 else 2.2e-16
    tol_exact = 500 * eps * kappa + (2e-5 if dtype == torch.float32 else 1e-9)
    # Lanczos-type answers carry the documented 1e-6 tridiagonal jitter (relative to the smallest Ritz value): 1e-6 kappa
    tol_krylov = max(tol_exact, 1e-4 * max(1.0, kappa / 100) if dtype == torch.float64 else 2e-2)
    tol = tol_exact if d["exact"] else tol_krylov
    if d["exact"] and d["relation"] in ("LLt", "RtR", "RRt"):
        # reconstruction by a direct factorization is backward stable: ||F F^T - A|| ~ eps ||A|| whatever the conditioning (a singular PSD
        # matrix is as easy as a well-conditioned one); only inverse-type relations lose accuracy with kappa
        tol = 500 * eps * min(kappa, 100.0) + (2e-5 if dtype == torch.float32 else 1e-9)
    fails = []
    thr = d["thr"]
    if not d["exact"] and not d.get("judge_degenerate"):
        # Krylov-space statements presuppose a non-degenerate spectrum (distinct eigenvalues): with repeated eigenvalues Lanczos breaks
        # down and the library's handling of that is judged by the dedicated breakdown instances of C09, not on sampled values here
        ev = torch.linalg.eigvalsh(A)
        if float(((ev[..., 1:] - ev[..., :-1]) / ev[..., -1:]).min()) < 1e-3:
            return [], dict(degenerate=True)
    try:
        op = bind.build(beh["term"], dtype)
        sden = d.get("sden", 1)
        if sden != 1:
            # the operator under test is (1 / sden) * term; results are scaled back below so that every relation is judged against A
            op = type(op)(op.tensor / sden) if beh["term"]["cls"] == "Dense" else op * (1.0 / sden)
        rs = float(sden) ** 0.5
        with contextlib.ExitStack() as st:
            st.enter_context(S.max_cholesky_size(thr["max_chol"]))
            st.enter_context(S.max_root_decomposition_size(thr["max_root"]))
            st.enter_context(S.fast_computations(covar_root_decomposition=thr["fast_root"]))
            q, m, rel = d["query"], d["method"], d["relation"]
            if d["cls"] == "MixedDef":
                # a jitter large enough to be seen if it reaches the positive-definite member
                st.enter_context(S.cholesky_jitter(float_value=1e-3, double_value=1e-3))
                import warnings as _w
                st.enter_context(_w.catch_warnings())
                _w.simplefilter("ignore")
            if rel == "cov":
                k = 1 if m == "k1" else 2
                if q == "sample_after_diag":
                    try:
                        op.diagonalization()
                    except Exception:  # noqa
                        pass
                if q == "sample_ciq_precond":
                    st.enter_context(S.min_preconditioning_size(0))
                    st.enter_context(S.max_preconditioner_size(2))
                if q in ("sample_ciq", "sample_ciq_precond"):
                    st.enter_context(S.ciq_samples(True))
                    st.enter_context(S.num_contour_quadrature(25))
                    st.enter_context(S.minres_tolerance(1e-8))
                target, sampler = A, op
                if q == "sample_scaled":
                    sampler = op * 2.5
                    target = 2.5 * A
                msg = numeric.sampling_covariance_check(lambda: sampler.zero_mean_mvn_samples(k), target, k, dtype,
                                                         "direct" if d["exact"] and not q.startswith("sample_ciq") else "lanczos",
                                                         affine_base=(1234 + d["id"]) if q.startswith("sample_ciq") else None)
                if msg and not d["exact"] and not q.startswith("sample_ciq") and "differs from the represented matrix" in msg:
                    # Lanczos root (possibly truncated / broken down on a degenerate summand): its accuracy is C06 / C09's subject;
                    # the sampler-level facts (shape, independence across samples and batch members) were still checked
                    msg = None
                return ([msg] if msg else []), {}
            res = _query(op, q, m, dtype)

        def close(X, Y, what, t=tol):
            e = numeric.rel_err(X, Y)
            if not e <= t:
                fails.append("%s: relative error %.3g > %.3g" % (what, e, t))

        D = lambda x: numeric.dense(x).to(torch.float64)
        if sden != 1:
            if rel in ("LLt", "RtR", "RRt"):
                res = D(res) * rs
            elif rel == "RRtInv":
                res = D(res) / rs
            elif rel == "eig":
                res = (res[0] * sden, res[1])
            elif rel == "eigvals":
                res = res * sden
            elif rel == "svd":
                res = (res[0], res[1] * sden, res[2])
        if rel in ("LLt", "RtR"):
            L = D(res)
            if not torch.equal(torch.tril(L) if rel == "LLt" else torch.triu(L), L):
                fails.append("factor is not %s triangular" % ("lower" if rel == "LLt" else "upper"))
            if d["cls"] == "MixedDef":
                # member 0 is singular (jittered, judged by C16); member 1 is positive definite and must be factorized exactly
                P = (L @ L.mT if rel == "LLt" else L.mT @ L)
                if not torch.isfinite(P).all():
                    fails.append("non-finite factor")
                close(P[1], A[1], "Cholesky factor of the positive-definite member of a mixed batch does not reproduce it")
            else:
                close(L @ L.mT if rel == "LLt" else L.mT @ L, A, "Cholesky factor does not reproduce A")
        elif rel == "RRt":
            R = D(res)
            if R.shape[-2] != n:
                fails.append("root has %d rows, expected %d" % (R.shape[-2], n))
            elif m == "pivoted_cholesky" and not d["exact"]:
                # a truncated pivoted Cholesky factor under-approximates: A - R R^T is positive semi-definite (details: C10)
                resid = A - R @ R.mT
                lo = float(torch.linalg.eigvalsh((resid + resid.mT) / 2).min())
                if lo < -tol_krylov * float(A.abs().max()):
                    fails.append("truncated pivoted-Cholesky root: A - R R^T is not positive semi-definite (min eigenvalue %.3g)" % lo)
            elif d["exact"]:
                close(R @ R.mT, A, "R R^T != A")
            else:
                comp, rank = _compression(R, A)
                close(R @ R.mT, comp, "R R^T is not the orthogonal compression of A onto span(R) (rank %d)" % rank, tol_krylov * 10)
                if rank == n and thr["max_root"] >= n:
                    close(R @ R.mT, A, "full-rank Lanczos root: R R^T != A", tol_krylov * 10)
        elif rel == "RRtInv":
            R = D(res)
            Ainv = torch.linalg.inv(A)
            if d["exact"]:
                close(R @ R.mT @ A, eye, "R R^T A != I")
            else:
                U, Sv, _ = torch.linalg.svd(R, full_matrices=False)
                rank = int((Sv > 1e-7 * Sv.max(-1, keepdim=True)[0]).sum(-1).min())
                if rank == n and thr["max_root"] >= n:
                    close(R @ R.mT @ A, eye, "full-rank Lanczos inverse root: R R^T A != I", tol_krylov * 10)
                else:
                    # inverse of the compression on the subspace: (Q^T A Q)^{-1} lifted back
                    Q = U[..., :, :rank]
                    M = Q @ torch.linalg.inv(Q.mT @ A @ Q) @ Q.mT
                    close(R @ R.mT, M, "R R^T is not the inverse of A's compression onto span(R)", tol_krylov * 10)
        elif rel == "eig":
            w, Q = res
            Q = D(Q)
            w = w.to(torch.float64)
            k = Q.shape[-1]
            G = Q.mT @ Q
            ek = torch.eye(k, dtype=torch.float64).expand(*Q.shape[:-2], k, k)
            if d.get("judge_degenerate"):
                # Lanczos diagonalization: eigenvectors of (round-off) negative Ritz values are masked, i.e. zero columns; the others orthonormal,
                # and Q diag(w) Q^T is the orthogonal compression of A onto the space Q spans
                kept = (G.diagonal(dim1=-1, dim2=-2) > 0.5).to(torch.float64)
                close(G, torch.diag_embed(kept), "Q^T Q is not a 0/1 diagonal (orthonormal columns, masked ones zero)", tol_krylov * 10)
                comp, rank = _compression(Q, A)
                close(Q @ torch.diag_embed(w) @ Q.mT, comp, "Q diag(w) Q^T is not the orthogonal compression of A onto span(Q) (rank %d)" % rank, tol_krylov * 10)
            else:
                close(G, ek, "Q^T Q != I")
                if d["exact"] or k == n:
                    close(Q @ torch.diag_embed(w) @ Q.mT, A, "Q diag(w) Q^T != A")
        elif rel == "eigvals":
            close(res.to(torch.float64).sort(-1)[0], torch.linalg.eigvalsh(A), "eigenvalues differ")
        elif rel == "svd":
            U, Sv, V = res
            U, V, Sv = D(U), D(V), Sv.to(torch.float64)
            if (Sv < -tol).any():
                fails.append("negative singular values")
            k = U.shape[-1]
            ek = torch.eye(k, dtype=torch.float64).expand(*U.shape[:-2], k, k)
            close(U.mT @ U, ek, "U^T U != I")
            close(V.mT @ V, ek, "V^T V != I")
            close(U @ torch.diag_embed(Sv) @ V.mT, A, "U diag(S) V^T != A")
    except NotImplementedError:
        return [], dict(unsupported=True)
    except Exception as e:  # noqa
        fails.append("raised " + exc_summary(e))
    return fails, {}


def _replay(beh):
    return check(beh)


def run(tier, seed, prop=PROP, only_sampling=False):
    res = core.Result(prop, tier, seed)
    r = tlc.run_sharded("MC_C06", prop.lower() + "." + tier, 8, dict(Tier=tier, Seed=seed, ValSeed=seed), invariants=["InvPSD"], timeout=3000)
    res.add_tlc("MC_C06", r)
    behs = sorted(r["out"], key=lambda b: b["desc"]["id"])
    behs = [b for b in behs if (b["desc"]["relation"] == "cov") == only_sampling]
    if only_sampling and tier == "quick":
        behs = [b for b in behs if b["desc"]["query"] != "sample_ciq" or b["desc"]["id"] % 3 == 0]      # (sample_ciq_precond: all kept)
    b0 = copy.deepcopy(next(b for b in behs if b["desc"]["exact"] and b["desc"]["cls"] == "Dense" and
                            b["desc"]["query"] in ("cholesky", "sample") and b["desc"]["thr"]["max_chol"] == 800))
    b0["dense"]["data"][1] += 2
    b0["dense"]["data"][b0["dense"]["shape"][-1]] += 2
    if not check(b0)[0]:
        raise core.MachineryError("canary: corrupted matrix not rejected")
    outs = core.pmap(_replay, behs, chunksize=4)
    unsupported = 0
    for beh, (fails, info) in zip(behs, outs):
        d = beh["desc"]
        res.traces += 1
        res.evaluations += 1
        unsupported += bool(info.get("unsupported"))
        res.notes["skipped_degenerate_spectrum"] = res.notes.get("skipped_degenerate_spectrum", 0) + bool(info.get("degenerate"))
        res.nontrivial.add((d["cls"], tuple(d["b"]), d["query"], d["method"], str(d["thr"]), d["dt"]))
        for msg in fails:
            kind = core.failure_kind(dict(kind="raised" if msg.startswith("raised") else "value", msg=msg))
            sig = "%s|%s(%s)|%s|%s" % (prop, d["query"], d["method"], d["cls"], kind)
            res.violation(sig, "%s batch=%s dt=%s thresholds=%s %s(method=%s): %s" % (beh["path"], d["b"], d["dt"], d["thr"], d["query"], d["method"], msg),
                          dict(behaviour=beh))
    res.notes["explicitly_unsupported_(NotImplementedError)"] = unsupported
    res.samples = [dict(desc=b["desc"], path=b["path"]) for b in behs[:3]]
    return res, behs


def finish_c06(res):
    res.rule = ("PSD class (22) x batch x query {cholesky(upper), root_decomposition / root_inv_decomposition (every method), eigh, eigvalsh, svd, "
                "diagonalization, torch.linalg.*} x thresholds (max_cholesky_size and max_root_decomposition_size on both sides of n, fast "
                "covar_root_decomposition); relations evaluated against the exact matrix; Lanczos-type results against the orthogonal compression "
                "onto their own span")
    res.exhaustive = res.tier == "thorough"
    res.assumptions = ["relations are evaluated in float64 against the exact integer matrix", "tolerance 500 eps kappa (direct), 1e-4 kappa/100 (Lanczos jitter)"]
    return res


def replay(rec, path):
    fails, _ = check(rec["behaviour"])
    for f in fails:
        print("  ", f)
    if fails:
        print("VIOLATION property=%s replay=%s" % (rec.get("property", PROP), path))
        return 1
    print("now conforms")
    return 0


_run = run


def run(tier, seed):  # noqa: F811
    res, _ = _run(tier, seed, PROP, False)
    return finish_c06(res)
