"""C04 - solve returns A^{-1}B whichever algorithm the library selects (spec/MC_E2.tla, spec/LORational.tla)."""
import copy

import torch

from .. import bind, core, e2
from ..replay import exc_summary

PROP = "C04"


def _replay(beh):
    import linear_operator

    d = beh["desc"]
    dtype = bind.DT[d["dt"]]
    fails = []
    A, X, _, _ = e2.oracles(beh)
    path = d["solve_path"]
    obs = "?"
    try:
        op = bind.build(beh["term"], dtype)
        B = {k: bind.tensor(v, dtype) for k, v in beh["rhs"].items()}
        tol = e2.tolerance(dtype, A, path)
        with e2.configuration(dict(d["cfg"], precond_rank=d.get("prank", 0))) as lines:
            calls = [("op.solve(vector)", lambda: op.solve(B["vec"]), X["vec"]) if not d["b"] else None,
                     ("op.solve(matrix)", lambda: op.solve(B["mat"]), X["mat"]),
                     ("op.solve(broadcast-batched rhs)", lambda: op.solve(B["bc"]), X["bc"]),
                     ("op.solve(matrix, left factor)", lambda: op.solve(B["mat"], B["lhs"]), B["lhs"].to(torch.float64) @ X["mat"]),
                     ("torch.linalg.solve(op, matrix)", lambda: torch.linalg.solve(op, B["mat"]), X["mat"]),
                     ("linear_operator.solve(op, matrix)", lambda: linear_operator.solve(op, B["mat"]), X["mat"])]
            if beh["term"]["cls"] in ("Chol", "Tri", "Diag", "ConstDiag", "Identity", "KronTri", "KronDiag") and not beh.get("big"):
                # classes that offer inverse(): the inverse operator must act as A^-1 and its own solve must give back A B
                calls += [("op.inverse() @ matrix", lambda: op.inverse() @ B["mat"], X["mat"]),
                          ("op.inverse().solve(matrix)", lambda: op.inverse().solve(B["mat"]), A @ B["mat"].to(torch.float64))]
            for c in calls:
                if c is None:
                    continue
                label, f, ref = c
                try:
                    got = f()
                except Exception as e:  # noqa
                    fails.append((label, "raised " + exc_summary(e)))
                    continue
                if list(got.shape) != list(ref.shape):
                    fails.append((label, "shape %s != expected %s" % (list(got.shape), list(ref.shape))))
                    continue
                if got.dtype != dtype:
                    fails.append((label, "dtype %s != operator dtype %s" % (got.dtype, dtype)))
                # relative to the size of the exact answer; for the left-factor form L A^-1 B relative to |L| |A^-1 B| (the exact product may
                # cancel to zero - then rounding of the order eps |L| |X| is all that can be asked for)
                denom = float(ref.abs().max())
                if "left factor" in label:
                    denom = max(denom, float((B["lhs"].to(torch.float64).abs() @ X["mat"].abs()).max()))
                err = float((got.to(torch.float64) - ref).abs().max()) / max(1e-30, denom)
                if beh.get("big") and path.startswith("cg"):
                    # large systems on the CG path (more unknowns than the 10 mandatory iterations): the property's criterion is the
                    # residual against the configured tolerance; the left-factor form has no residual of its own and is only executed
                    if "left factor" not in label:
                        vec = "vector" in label
                        Bk = (B["vec"] if vec else (B["bc"] if "broadcast" in label else B["mat"])).to(torch.float64)
                        Xg = got.to(torch.float64)
                        if vec:
                            Bk, Xg = Bk.unsqueeze(-1), Xg.unsqueeze(-1)
                        res_rel = ((A @ Xg - Bk).norm(dim=-2) / Bk.norm(dim=-2).clamp_min(1e-30)).mean()
                        cg_tol = e2.CG_TOL_SMALL if d["cfg"]["cg_tol_small"] else 1.0
                        if not float(res_rel) <= 1.5 * max(cg_tol, 1e-5):
                            fails.append((label, "mean relative residual %.3g exceeds the configured CG tolerance %.3g" % (float(res_rel), cg_tol)))
                elif not err <= tol:
                    fails.append((label, "relative error %.3g > %.3g (selection path %s)" % (err, tol, path)))
            obs = e2.observed_path(lines)
    except Exception as e:  # noqa
        fails.append(("setup", "raised " + exc_summary(e)))
    return fails, obs


def run(tier, seed):
    res = core.Result(PROP, tier, seed)
    r, behs = e2.generate(tier, seed, "c04")
    res.add_tlc("MC_E2", r)
    b0 = copy.deepcopy(next(b for b in behs if not b.get("big")))
    b0["solve"]["mat"]["nums"][0] += 7 * abs(b0["solve"]["mat"]["dens"][0])
    if not _replay(b0)[0]:
        raise core.MachineryError("canary: corrupted exact solution not rejected")
    outs = core.pmap(_replay, behs, chunksize=4)
    paths = {}
    for beh, (fails, obs) in zip(behs, outs):
        d = beh["desc"]
        res.traces += 1
        res.evaluations += 6
        res.nontrivial.add((d["cls"], tuple(d["b"]), d["cfgid"], d["dt"]))
        paths[(d["solve_path"], obs)] = paths.get((d["solve_path"], obs), 0) + 1
        for label, msg in fails:
            kind = core.failure_kind(dict(kind="raised" if msg.startswith("raised") else "value", msg=msg))
            cls_tag = d["cls"]
            if d["cfg"]["max_chol"] == 0 and d["cls"].startswith("Kron") and e2.degenerate_factor(beh):
                cls_tag += "[factor-with-repeated-eigenvalue]"
            sig = "%s|%s|%s|%s|%s" % (PROP, label.replace(" ", ""), cls_tag, d["solve_path"], kind)
            res.violation(sig, "%s batch=%s dt=%s cfg=%s: %s: %s" % (beh["path"], d["b"], d["dt"], d["cfg"], label, msg), dict(behaviour=beh))
    missing = {"class-shortcut", "cholesky", "cg", "cg+preconditioner-if-any"} - {p for p, _ in paths}
    if missing:
        raise core.MachineryError("selection paths never exercised: %s" % missing)
    res.notes["paths_predicted_x_observed"] = {"%s / %s" % k: v for k, v in sorted(paths.items())}
    res.samples = [dict(desc=b["desc"], path=b["path"]) for b in behs[:3]]
    res.rule = ("PD class (22) x batch x rhs kinds (vector, matrix, broadcast-batched, with left factor; method / torch.linalg.solve / linear_operator.solve) "
                "x configurations (max_cholesky_size {0, default} x fast solves x fast log_prob x cg_tolerance x preconditioner on/off x memory_efficient); "
                "exact rational answers adj(A)B/det(A) from TLC; distinct = (class, batch, configuration, dtype)")
    res.exhaustive = tier == "thorough"
    res.assumptions = ["tolerance: 200 eps kappa(A) for direct paths, 1e-3 (f64) / 2e-2 (f32) relative for CG paths (sizes <= 4: CG reaches its floor)",
                       "the observed algorithm (verbose_linalg log) is recorded for coverage only"]
    return res


def replay(rec, path):
    fails, obs = _replay(rec["behaviour"])
    for f in fails:
        print("  ", f)
    if fails:
        print("VIOLATION property=%s replay=%s" % (PROP, path))
        return 1
    print("now conforms (observed path %s)" % obs)
    return 0
