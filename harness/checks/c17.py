"""C17 - settings contexts are properly scoped and never leak (spec/LOSettings.tla).

1. TLC checks the implementation-shaped model (Impl = "fixed": snapshot on a per-object stack at __enter__, unconditional restore)
   against the ideal scoped semantics: Refines, DefaultsAtQuiescence, SnapDiscipline, RestoreOnExit, NoCrossLeak.  The thorough tier
   also requires the model of the pinned tree (Impl = "pinned") to be rejected (non-vacuity; this is how the two leaks were found).
2. TLC emits every history of construct / enter / exit / exit-by-exception / fill-cache events up to the depth bound with the expected
   value of every slot after every event; each history is replayed into linear_operator.settings under several bindings of the
   abstract slots to real setting classes, all observable values compared after every event; at the end the remaining blocks are
   unwound and every setting must be back at its default.
3. Random longer histories by TLC -simulate (thorough).
"""
import copy
import json
import random

import torch

from .. import core, tlc

PROP = "C17"


def _bindings():
    from linear_operator import beta_features, settings as S

    flags = [S._fast_covar_root_decomposition, S._fast_log_prob, S._fast_solves, S.ciq_samples, S.debug, S.memory_efficient,
             S.skip_logdet_forward, S.terminate_cg_by_size, S.trace_mode, S.use_toeplitz, S.verbose_linalg,
             beta_features.default_preconditioner]
    values = [(S.cholesky_max_tries, 5, 7), (S.cg_tolerance, 0.5, 0.25), (S.max_cg_iterations, 11, 13), (S.max_cholesky_size, 0, 17),
              (S.max_lanczos_quadrature_iterations, 3, 4), (S.max_preconditioner_size, 2, 5), (S.max_root_decomposition_size, 8, 9),
              (S.min_preconditioning_size, 1, 3), (S.minres_tolerance, 0.5, 0.125), (S.num_contour_quadrature, 6, 7),
              (S.num_trace_samples, 2, 30), (S.preconditioner_tolerance, 0.5, 0.25), (S.tridiagonal_jitter, 0.5, 0.25),
              (S.stable_qr_cpu_threshold, 1, 2), (S._linalg_dtype_symeig, torch.float, torch.half),
              (S._linalg_dtype_cholesky, torch.float, torch.half)]
    return S, flags, values


class Binding:
    """maps the abstract slots of LOSettings.tla to real setting classes"""

    def __init__(self, k, composite):
        S, flags, values = _bindings()
        self.S = S
        if composite:
            self.F1, self.F2 = S._fast_covar_root_decomposition, S._fast_log_prob
            self.V1, self.V2 = values[14], values[15]
        else:
            self.F1, self.F2 = flags[k % len(flags)], flags[(k + 5) % len(flags)]
            self.V1, self.V2 = values[k % 14], values[(k + 3) % 14]
        self.P = S.deterministic_probes
        self.D = S.cholesky_jitter
        self.composite = composite
        self.name = "F1=%s F2=%s V1=%s V2=%s" % (self.F1.__name__, self.F2.__name__, self.V1[0].__name__, self.V2[0].__name__)
        self.defaults = self.observe()

    def flagval(self, v):
        return v == 2

    def val(self, slot, v):
        return getattr(self, slot)[v]

    def make(self, o):
        cls, a, b, c = o["cls"], o["a"], o["b"], o["c"]
        S = self.S
        if cls in ("F1", "F2", "P"):
            return getattr(self, cls)(self.flagval(a))
        if cls in ("V1", "V2"):
            return getattr(self, cls)[0](self.val(cls, a))
        if cls == "D":
            # (the float slot is set to the legal value 0.0 - "no jitter" - so that falsy values are exercised too)
            return S.cholesky_jitter(float_value=None if a == 0 else 0.0, double_value=None if b == 0 else 0.25,
                                     half_value=None if c == 0 else 0.125)
        if cls == "CF":
            return S.fast_computations(covar_root_decomposition=self.flagval(a), log_prob=self.flagval(b), solves=True)
        if cls == "CV":
            return S.linalg_dtypes(symeig=self.val("V1", a), cholesky=self.val("V2", b))
        raise KeyError(cls)

    def observe(self):
        S = self.S
        return dict(F1=self.F1.on(), F2=self.F2.on(), P=self.P.on(), V1=self.V1[0].value(), V2=self.V2[0].value(),
                    Df=S.cholesky_jitter.value(torch.float), Dd=S.cholesky_jitter.value(torch.double),
                    Dh=S.cholesky_jitter.value(torch.half), solves=S._fast_solves.on() if self.composite else True)

    def expected(self, exp):
        d = self.defaults
        out = {}
        for s in ("F1", "F2", "P"):
            out[s] = d[s] if exp[s] == 0 else exp[s] == 2
        for s in ("V1", "V2"):
            out[s] = d[s] if exp[s] == 3 else getattr(self, s)[exp[s]]
        out["Df"] = d["Df"] if exp["Df"] == 3 else 0.0
        out["Dd"] = d["Dd"] if exp["Dd"] == 3 else 0.25
        out["Dh"] = None if exp["Dh"] == 0 else 0.125
        out["solves"] = True
        return out


def replay_history(hist, binding):
    """-> None or (step index, message). Always unwinds, so the process-global settings are clean afterwards."""
    S = binding.S
    objs, entered = {}, []
    failure = None
    try:
        for i, ev in enumerate(hist):
            act = ev["act"]
            if act == "construct":
                objs[ev["ctx"]] = binding.make(ev["obj"])
            elif act == "enter":
                objs[ev["ctx"]].__enter__()
                entered.append(objs[ev["ctx"]])
            elif act in ("exit", "exit_exc"):
                o = entered.pop()
                if act == "exit":
                    r = o.__exit__(None, None, None)
                else:
                    e = ValueError("boom")
                    r = o.__exit__(ValueError, e, None)
                if r:
                    failure = (i, "__exit__ returned a truthy value: the exception would be swallowed")
                    break
            elif act == "fill_cache":
                S.deterministic_probes.probe_vectors = torch.ones(1)
            got = binding.observe()
            exp = binding.expected(ev["expect"])
            if got != exp:
                diff = {k: (got[k], exp[k]) for k in got if got[k] != exp[k]}
                failure = (i, "after %s(ctx %s, %s): observed != expected (got, expected): %s" % (act, ev["ctx"], ev["obj"]["cls"], diff))
                break
            if (S.deterministic_probes.probe_vectors is not None) != bool(ev["cache"]):
                failure = (i, "probe cache %s after %s, expected %s" % ("kept" if S.deterministic_probes.probe_vectors is not None else "cleared", act, ev["cache"]))
                break
    finally:
        while entered:
            entered.pop().__exit__(None, None, None)
        q = binding.observe()
        if failure is None and q != binding.defaults:
            failure = (len(hist), "after leaving every block the settings are not back at their defaults: %s" %
                       {k: (q[k], binding.defaults[k]) for k in q if q[k] != binding.defaults[k]})
        _force_defaults(binding)
    return failure


def _force_defaults(binding):
    S, flags, values = _bindings()
    for f in flags + [S.deterministic_probes]:
        f._state = None
    S.deterministic_probes.probe_vectors = None
    d = binding.defaults
    binding.V1[0]._global_value, binding.V2[0]._global_value = d["V1"], d["V2"]
    S.cholesky_jitter._global_float_value, S.cholesky_jitter._global_double_value = d["Df"], d["Dd"]
    S.cholesky_jitter._global_half_value = None


def _sig(hist, i):
    upto = hist[: i + 1]
    kinds = "".join(dict(construct="c", enter="E", exit="X", exit_exc="R", fill_cache="f")[e["act"]] for e in upto)
    cls = sorted({e["obj"]["cls"] for e in upto if e["act"] == "construct"})
    return "%s|%s|%s" % (PROP, kinds, "+".join(cls))


def _replay_chunk(args):
    chunk, base = args
    out = []
    for j, hist in chunk:
        comp = any(e["act"] == "construct" and e["obj"]["cls"] in ("CF", "CV") for e in hist)
        b = Binding(base + j, comp)
        f = replay_history(hist, b)
        if f:
            out.append((j, f, b.name))
    return out


def _slot_consumers(seed):
    """float64 computations that read one of the two linalg dtype slots, run while only the OTHER slot is lowered to float32: the results
    must keep float64 accuracy (no leak from one dtype slot to another at the places where the slots are consumed)"""
    import warnings

    from linear_operator import settings as S
    from linear_operator.operators import (ConstantDiagLinearOperator, DenseLinearOperator, KroneckerProductAddedDiagLinearOperator,
                                           KroneckerProductLinearOperator)

    out = []
    g = torch.Generator().manual_seed(1000 + seed)

    def pd(k):
        M = torch.randn(k, k, generator=g, dtype=torch.float64)
        return M @ M.mT / k + torch.eye(k, dtype=torch.float64)

    K1, K2, A = pd(3), pd(4), pd(6)
    B = torch.randn(12, 2, generator=g, dtype=torch.float64)

    def kron_solve():
        op = KroneckerProductAddedDiagLinearOperator(KroneckerProductLinearOperator(DenseLinearOperator(K1), DenseLinearOperator(K2)),
                                                     ConstantDiagLinearOperator(torch.tensor([0.7], dtype=torch.float64), 12))
        with S.max_cholesky_size(0):
            X = op.solve(B)
        D = torch.kron(K1, K2) + 0.7 * torch.eye(12, dtype=torch.float64)
        return float((D @ X - B).abs().max() / B.abs().max())

    def dense_eigh():
        w, V = DenseLinearOperator(A).eigh()
        V = V.to_dense() if hasattr(V, "to_dense") else V
        return float(((V * w.unsqueeze(-2)) @ V.mT - A).abs().max() / A.abs().max())

    def dense_chol():
        L = DenseLinearOperator(A).cholesky().to_dense()
        return float((L @ L.mT - A).abs().max() / A.abs().max())

    with warnings.catch_warnings():
        warnings.simplefilter("ignore")
        for name, f, slot in (("KroneckerProductAddedDiag.solve", kron_solve, "symeig"), ("DenseLinearOperator.eigh", dense_eigh, "symeig"),
                              ("DenseLinearOperator.cholesky", dense_chol, "cholesky")):
            other = dict(cholesky=torch.float32) if slot == "symeig" else dict(symeig=torch.float32)
            try:
                with S.linalg_dtypes(default=torch.float64, **other):
                    err = f()
            except Exception as e:  # noqa
                from ..replay import exc_summary

                out.append((name, "%s under linalg_dtypes(%s): raised %s" % (name, other, exc_summary(e))))
                continue
            if not err <= 1e-10:
                out.append((name, "%s reads the %s slot, but with only the other slot lowered (linalg_dtypes(%s)) its float64 result has relative "
                                  "error %.3g" % (name, slot, ", ".join("%s=float32" % k for k in other), err)))
    # ---- a scalar setting takes effect in the computation that consumes it (not only in .value()): cholesky_max_tries
    from linear_operator.utils.cholesky import psd_safe_cholesky
    from linear_operator.utils.errors import NotPSDError

    Bm = torch.tensor([[1.0, 1.0 + 3e-5], [1.0 + 3e-5, 1.0]], dtype=torch.float64)      # smallest eigenvalue -3e-5: needs jitter 1e-8 * 10^4
    with warnings.catch_warnings():
        warnings.simplefilter("ignore")
        for tries, expect_ok in ((6, True), (2, False)):
            try:
                with S.cholesky_max_tries(tries):
                    psd_safe_cholesky(Bm)
                ok = True
            except NotPSDError:
                ok = False
            if ok != expect_ok:
                out.append(("psd_safe_cholesky[cholesky_max_tries]", "with settings.cholesky_max_tries(%d) the factorization of a matrix that needs 5 attempts %s"
                            % (tries, "raised NotPSDError" if not ok else "succeeded")))
    return out


def run(tier, seed):
    res = core.Result(PROP, tier, seed)
    depth = 5 if tier == "quick" else 6
    consts = dict(Ctxs={1, 2}, Depth=depth + 1, Impl="fixed", Emit=False)
    rm = tlc.run("LOSettings", "c17.model." + tier, constants=consts,
                 invariants=["Refines", "DefaultsAtQuiescence", "ImplDefaultsAtQuiescence", "SnapDiscipline"],
                 properties=["RestoreOnExit", "NoCrossLeak"], workers=16, timeout=3000, heap="12g")
    res.add_tlc("LOSettings[fixed,depth=%d]" % (depth + 1), rm)
    if rm["violated"]:
        raise core.MachineryError("settings M-layer (fixed) violates %s:\n%s" % (rm["violated"], rm["text"][-2000:]))
    if tier == "thorough":
        rp = tlc.run("LOSettings", "c17.model.pinned", constants=dict(consts, Impl="pinned", Depth=6), invariants=["Refines"],
                     workers=16, timeout=3000, heap="12g")
        if rp["violated"] != "Refines":
            raise core.MachineryError("non-vacuity self-test failed: the model of the pinned settings.py was not rejected")
        res.notes["pinned_model_rejected"] = True
        r3 = tlc.run("LOSettings", "c17.model.3ctx", constants=dict(consts, Ctxs={1, 2, 3}, Depth=6),
                     invariants=["Refines", "DefaultsAtQuiescence", "SnapDiscipline"], properties=["RestoreOnExit", "NoCrossLeak"],
                     workers=16, timeout=3000, heap="12g")
        res.add_tlc("LOSettings[fixed,3 contexts,depth=6]", r3)
        if r3["violated"]:
            raise core.MachineryError("settings M-layer (fixed, 3 contexts) violates %s" % r3["violated"])
    # ---- behaviours
    re_ = tlc.run("LOSettings", "c17.emit." + tier, constants=dict(Ctxs={1, 2}, Depth=depth, Impl="fixed", Emit=True),
                  invariants=["EmitInv"], workers=16, timeout=3000, heap="12g")
    res.add_tlc("LOSettings[emit,depth=%d]" % depth, re_)
    hists = re_["out"]
    if tier == "thorough":
        rs = tlc.run("LOSettings", "c17.sim", constants=dict(Ctxs={1, 2, 3}, Depth=10, Impl="fixed", Emit=True), invariants=["EmitInv", "Refines"],
                     workers=8, timeout=600, heap="8g", simulate="num=20000", depth=12, seed=seed + 1)
        hists += rs["out"]
        res.notes["simulated_histories_depth10"] = len(rs["out"])
    if not hists:
        raise core.MachineryError("no histories")
    # canary: corrupt one expectation -> must be rejected
    h0 = copy.deepcopy(next(h for h in hists if any(e["act"] == "enter" for e in h)))
    k = next(i for i, e in enumerate(h0) if e["act"] == "enter")
    slot = dict(F1="F1", F2="F2", P="P", V1="V1", V2="V2", D="Df", CF="F1", CV="V1")[h0[k]["obj"]["cls"]]
    cur = h0[k]["expect"][slot]
    h0[k]["expect"][slot] = (1 if cur == 2 else 2) if slot[0] in "FP" else (1 if cur == 3 else 3)
    if replay_history(h0, Binding(0, True)) is None:
        raise core.MachineryError("canary: corrupted expectation was not rejected")
    items = list(enumerate(hists))
    n = 64
    chunks = [(items[i::n], seed) for i in range(n)]
    outs = core.pmap(_replay_chunk, chunks, chunksize=1)
    res.traces = len(hists)
    res.evaluations = sum(len(h) for h in hists)
    for out in outs:
        for j, (i, msg), bname in out:
            hist = hists[j]
            res.violation(_sig(hist, min(i, len(hist) - 1)), "history %s [%s]: step %d: %s" % (
                [(e["act"], e["ctx"], e["obj"]["cls"], e["obj"]["a"], e["obj"]["b"], e["obj"]["c"]) for e in hist], bname, i, msg),
                dict(history=hist, binding_base=seed + j))
    # ---- use sites of the two linalg dtype slots: a computation that reads the symeig slot must not feel the cholesky slot (and vice versa)
    for name, msg in _slot_consumers(seed):
        res.violation("%s|consumer|%s|use-site-does-not-follow-the-settings" % (PROP, name), msg, dict(consumer=name, history=[]))
    for h in hists:
        res.nontrivial.add("".join(e["act"][0] + str(e["ctx"]) + e["obj"]["cls"] for e in h))
    res.samples = [[dict(act=e["act"], ctx=e["ctx"], cls=e["obj"]["cls"], args=[e["obj"]["a"], e["obj"]["b"], e["obj"]["c"]], expect=e["expect"])
                    for e in h] for h in hists[:2]]
    res.rule = ("all histories of construct / enter / exit / exception-exit / fill-cache events over 8 context classes (flags, values, per-dtype "
                "value, two composites, cache-owning flag) and 2 context objects up to depth %d (exhaustive), replayed under rotating bindings of the "
                "abstract slots to the 12 flag and 16 value classes of linear_operator.settings; distinct = distinct event/class sequences" % depth)
    res.exhaustive = True
    res.assumptions = ["with-blocks are LIFO (nested); non-LIFO manual __exit__ calls are outside the property",
                       "values of computations outside a block are not re-computed; the property is checked on the setting values themselves"]
    return res


def replay(rec, path):
    if rec.get("consumer"):
        bad = [m for n, m in _slot_consumers(0) if n == rec["consumer"]]
        for m in bad:
            print("  " + m)
        if bad:
            print("VIOLATION property=%s replay=%s" % (PROP, path))
            return 1
        print("consumer now unaffected by the other dtype slot")
        return 0
    f = replay_history(rec["history"], Binding(rec.get("binding_base", 0),
                                               any(e["act"] == "construct" and e["obj"]["cls"] in ("CF", "CV") for e in rec["history"])))
    if f:
        print("  step %d: %s" % f)
        print("VIOLATION property=%s replay=%s" % (PROP, path))
        return 1
    print("history now conforms")
    return 0
