"""C11 - MINRES solves all shifted systems; contour quadrature gives the matrix root (spec/LOMinres.tla, MC_C11.tla, Trace_C11.tla).

(1) TLC enumerates the shape cases of minres (operator batch x right-hand side x shift tensor) with the documented output shape and checks
    the control layer (iteration budget, convergence tests only every 10th iteration) over all observation sequences; slipped variants rejected.
(2) Every shape case and seeded numeric drivers (spectrum family, condition number <= 1e4, size 1..40, preconditioners, tolerances, zero
    columns, dtypes) are executed: budgets 1..n+1 with a tight tolerance give the iterates, then the configured call, a rescaled call and the
    full-budget call; contour_integral_quad / sqrt_inv_matmul are executed on operator classes with and without a preconditioner.  The
    recorded measurements are validated by TLC (Trace_C11): one total verdict per trace.
"""
import contextlib
import json
import math
import os
import warnings

import torch

from .. import core, tlc
from ..replay import exc_summary
from . import c08

PROP = "C11"
lg = c08.lg
_h = c08._h
NA = -99999
INVS = ["InvBudget", "InvCheckpoints", "InvShiftDim"]


def spd(n, batch, family, kappa, g):
    B = int(math.prod(batch)) if batch else 1
    mats = []
    for _ in range(B):
        v = torch.randn(n, generator=g, dtype=torch.float64)
        Q = torch.eye(n, dtype=torch.float64) - 2 * torch.outer(v, v) / (v @ v)
        mats.append(Q @ torch.diag(c08.spectrum(family, n, kappa)) @ Q.T)
    A = torch.stack(mats).reshape(*batch, n, n)
    return (A + A.mT) / 2


def record_minres(sc):
    from linear_operator import settings
    from linear_operator.utils.minres import minres

    g = torch.Generator().manual_seed(sc["seed"])
    dtype = torch.float32 if sc["dt"] == "f32" else torch.float64
    n, opb, rb, cols, sh = sc["n"], sc["opb"], sc["rhs_batch"], sc["cols"], sc["shifts"]
    K = spd(n, opb, sc["family"], sc["kappa"], g).to(dtype)
    K64 = K.to(torch.float64)
    c = max(1, cols)
    rhs = torch.randn(*rb, n, c, generator=g, dtype=torch.float64)
    zero_cols = []
    if sc["zero_col"] and c > 1:
        rhs[..., 1] = 0
        zero_cols = [1]
    if sc.get("zero_all"):
        # nothing to solve at all: the answer is zero - with the documented shape (shift dimension, batch dimensions)
        rhs.zero_()
        zero_cols = list(range(c))
    rhs = rhs.to(dtype)
    rhs_arg = rhs[..., 0] if cols == 0 else rhs
    sb = list(sh[1:]) if (sh != [-1] and len(sh) > 1) else []
    batch = list(torch.broadcast_shapes(torch.Size(opb), torch.Size(rb), torch.Size(sb)))
    S = 1 if (sh == [-1] or len(sh) == 0) else sh[0]
    if sh == [-1]:
        shifts = None
        sigma = torch.zeros(1, *batch, dtype=torch.float64)
    else:
        u = torch.rand(max(1, int(math.prod(sh))), generator=g, dtype=torch.float64).reshape(sh)
        shifts = 0.1 + 1.9 * u
        if sc["neg_shift"]:
            shifts = shifts - 0.5        # indefinite but non-singular systems (the spectrum of K starts at 1)
        if sc.get("shift_spread") and shifts.dim() > 0 and shifts.shape[0] > 1:
            # the FIRST shift makes its system trivially easy (K + s I ~ s I): the stopping rule must still wait for the hard ones
            shifts[0] = shifts[0] * 100.0 * sc["kappa"]
        shifts = shifts.to(dtype)
        s64 = shifts.to(torch.float64)
        sigma = s64.reshape(S, *([1] * (len(batch) - len(sb))), *sb).expand(S, *batch) if s64.dim() > 0 else s64.expand(1, *batch)
    nonzero_shift = sh != [-1]
    pre, P = c08.preconditioner(sc["precond"], K)
    pshift = P is not None and nonzero_shift
    eye = torch.eye(n, dtype=torch.float64)
    Kb = K64.expand(*batch, n, n).unsqueeze(0)
    Ms = Kb + sigma.reshape(S, *batch, 1, 1) * eye                                                      # (S, *batch, n, n): the documented systems
    Ms_alt = Kb + sigma.reshape(S, *batch, 1, 1) * (P.expand(*batch, n, n).unsqueeze(0) if P is not None else eye)
    rhs64 = rhs.to(torch.float64).expand(*batch, n, c)
    xstar = torch.linalg.solve(Ms, rhs64.unsqueeze(0).expand(S, *batch, n, c))                          # (S, *batch, n, c)
    xalt = torch.linalg.solve(Ms_alt, rhs64.unsqueeze(0).expand(S, *batch, n, c))
    kap = max(float(torch.linalg.cond(Ms).max()), float(torch.linalg.cond(Ms_alt).max()))
    Pinv64 = torch.linalg.inv(P) if P is not None else None
    nshift = 1 if sh == [-1] else int(math.prod(sh))
    want = ([S] if nshift > 1 else []) + batch + [n] + ([] if cols == 0 else [c])
    if list(sc["expect"]) != want:
        return dict(error="harness/spec disagreement on the expected shape: %s vs %s" % (sc["expect"], want))

    def call(rhs_a, max_iter, tol):
        calls = [0]

        def mm(x):
            calls[0] += 1
            return K @ x

        with settings.minres_tolerance(tol), warnings.catch_warnings():
            warnings.simplefilter("ignore")
            out = minres(mm, rhs_a.clone(), shifts=None if shifts is None else shifts.clone(), max_iter=max_iter, preconditioner=pre)
        return out, calls[0] - 1

    def full(x):
        return x.to(torch.float64).reshape(S, *batch, n, c)

    def presid(X):
        R = Ms_alt @ X - rhs64
        if Pinv64 is None:
            num, den = R.norm(dim=-2), rhs64.norm(dim=-2)
        else:
            num = (R * (Pinv64 @ R)).sum(-2).clamp_min(0).sqrt()
            den = (rhs64 * (Pinv64 @ rhs64)).sum(-2).clamp_min(0).sqrt()
        live = den > 1e-10
        return float(torch.where(den > 1e-10, num / den.clamp_min(1e-300), torch.zeros_like(num)).max())

    runs, iterates = [], {}
    try:
        for j in range(1, n + 2):
            out, its = call(rhs_arg, j, 1e-30)
            X = full(out)
            iterates[its] = X
            runs.append(dict(m=j, res=lg(presid(X)), its=its))
        out, its = call(rhs_arg, None, sc["tol"])
    except Exception as e:  # noqa
        return dict(error="raised " + exc_summary(e))
    fin = dict(shape_ok=list(out.shape) == want and out.dtype == dtype, finite=bool(torch.isfinite(out).all()), zero_ok=True, scale=NA, err=NA, full=NA, erralt=NA, fullalt=NA, iters=its, obs=[])
    if fin["shape_ok"] and fin["finite"]:
        X = full(out)
        live = [k for k in range(c) if k not in zero_cols]
        fin["zero_ok"] = all(bool((X[..., k] == 0).all()) for k in zero_cols)
        if not live:
            return dict(kind="minres", cfg=dict(n=n, max_iter=1000, f32=dtype == torch.float32, lgtol=lg(sc["tol"]), lgk=0, lgfloor=0, pshift=False),
                        runs=[], final=fin)
        rel = ((X - xstar).norm(dim=-2) / xstar.norm(dim=-2).clamp_min(1e-300))[..., live]
        fin["err"] = lg(rel.max())
        fin["erralt"] = lg(((X - xalt).norm(dim=-2) / xalt.norm(dim=-2).clamp_min(1e-300))[..., live].max())
        out2, _ = call(rhs_arg * 2.0 ** 9, None, sc["tol"])
        dev = (full(out2) - 2.0 ** 9 * X).abs().max() / max(1e-300, float(X.abs().max()) * 2.0 ** 9)
        fin["scale"] = lg(dev)
        out3, _ = call(rhs_arg, None, 1e-30)
        rel3 = ((full(out3) - xstar).norm(dim=-2) / xstar.norm(dim=-2).clamp_min(1e-300))[..., live]
        fin["full"] = lg(rel3.max())
        fin["fullalt"] = lg(((full(out3) - xalt).norm(dim=-2) / xalt.norm(dim=-2).clamp_min(1e-300))[..., live].max())
        # convergence observations after iterations 1, 2, ... (from the iterates), for the control model
        top = max(iterates) if iterates else 0
        for i in range(1, top + 1):
            if i in iterates and (i - 1) in iterates:
                u = (iterates[i] - iterates[i - 1]).norm(dim=-2) / iterates[i].norm(dim=-2)
                fin["obs"].append(bool(u.mean() < sc["tol"]))
            else:
                fin["obs"].append(False)
    relfloor = 1e-10 if dtype == torch.float64 else 1e-4
    return dict(kind="minres", cfg=dict(n=n, max_iter=1000, f32=dtype == torch.float32, lgtol=lg(sc["tol"]), lgk=lg(math.sqrt(kap) + 1), lgfloor=lg(relfloor * kap), pshift=pshift),
                runs=runs, final=fin)


def record_ciq(sc):
    from linear_operator import settings
    from linear_operator.operators import (AddedDiagLinearOperator, ConstantDiagLinearOperator, DenseLinearOperator, DiagLinearOperator,
                                           IdentityLinearOperator)
    from linear_operator.utils.contour_integral_quad import contour_integral_quad

    g = torch.Generator().manual_seed(sc["seed"])
    dtype = torch.float32 if sc["dt"] == "f32" else torch.float64
    n, batch, c = sc["n"], sc["batch"], sc["cols"]
    cls = sc["cls"]
    if cls == "Dense":
        K = spd(n, batch, sc["family"], sc["kappa"], g).to(dtype)
        op = DenseLinearOperator(K)
    elif cls in ("AddedDiag", "AddedDiagPrecond"):
        base = spd(n, batch, sc["family"], sc["kappa"], g) - 0.5 * torch.eye(n, dtype=torch.float64)
        dg = 0.5 + 0 * torch.rand(*batch, n, generator=g, dtype=torch.float64) if sc["seed"] % 2 else 0.3 + 0.4 * torch.rand(*batch, n, generator=g, dtype=torch.float64)
        if sc.get("small_diag"):
            # a dominant low-rank part and a small diagonal: the preconditioned spectrum differs strongly from the spectrum of K itself
            # (rank 4 against a rank-2 preconditioner: the preconditioner is truncated)
            V = torch.randn(*batch, n, 4, generator=g, dtype=torch.float64) * torch.tensor([7.0, 5.0, 3.0, 2.0], dtype=torch.float64)
            base = V @ V.mT + 0.02 * (base + 0.5 * torch.eye(n, dtype=torch.float64))
            dg = 0.02 + 0.02 * torch.rand(*batch, n, generator=g, dtype=torch.float64)
        op = AddedDiagLinearOperator(DenseLinearOperator(base.to(dtype)), DiagLinearOperator(dg.to(dtype)))
    elif cls == "Diag":
        op = DiagLinearOperator((1 + (sc["kappa"] - 1) * torch.rand(*batch, n, generator=g, dtype=torch.float64)).to(dtype))
    elif cls == "ConstDiag":
        op = ConstantDiagLinearOperator((1 + torch.rand(*batch, 1, generator=g, dtype=torch.float64)).to(dtype), n)
    else:
        op = IdentityLinearOperator(n, batch_shape=torch.Size(batch), dtype=dtype)
    K64 = op.to_dense().to(torch.float64)
    w, V = torch.linalg.eigh(K64)
    Kinvsqrt = (V / w.sqrt().unsqueeze(-2)) @ V.mT
    Ksqrt = (V * w.sqrt().unsqueeze(-2)) @ V.mT
    Kinv = (V / w.unsqueeze(-2)) @ V.mT
    # (the right-hand side may carry batch dimensions in front of the operator's own: everything broadcasts)
    extra = list(sc.get("rhs_extra", []))
    obatch = extra + list(batch)
    rhs = torch.randn(*obatch, n, max(1, c), generator=g, dtype=torch.float64).to(dtype)
    lhs = torch.randn(*batch, 2, n, generator=g, dtype=torch.float64).to(dtype)
    r64, l64 = rhs.to(torch.float64), lhs.to(torch.float64)
    fin = dict(shape_ok=True, finite=True, invsqrt=NA, sqrt=NA, twice=NA, left=NA, leftdiag=NA, noshift=NA, gram=NA, gramsqrt=NA, sample_ok=True)
    rel = lambda X, Y: lg((X.to(torch.float64) - Y).norm() / Y.norm().clamp_min(1e-300))
    try:
        with contextlib.ExitStack() as st, warnings.catch_warnings():
            warnings.simplefilter("ignore")
            st.enter_context(settings.minres_tolerance(1e-9 if sc["tight"] else 1e-4))
            st.enter_context(settings.num_contour_quadrature(sc["Q"]))
            if cls == "AddedDiagPrecond":
                st.enter_context(settings.min_preconditioning_size(0))
                st.enter_context(settings.max_preconditioner_size(2))
            precond = cls == "AddedDiagPrecond"
            if cls in ("Dense", "AddedDiag", "AddedDiagPrecond"):
                for inverse in (True, False):
                    solves, weights, noshift, shifts = contour_integral_quad(op, rhs, inverse=inverse, num_contour_quadrature=sc["Q"])
                    res = (solves * weights).sum(0)
                    if list(res.shape) != obatch + [n, max(1, c)] or list(noshift.shape) != obatch + [n, max(1, c)]:
                        fin["shape_ok"] = False
                        continue
                    if not torch.isfinite(res).all():
                        fin["finite"] = False
                        continue
                    if not precond:
                        fin["invsqrt" if inverse else "sqrt"] = rel(res, (Kinvsqrt if inverse else Ksqrt) @ r64)
                        fin["noshift"] = rel(noshift, -(Kinv @ r64))
                # the map b -> result of the inverse quadrature is a root of K^-1 (symmetric only without a preconditioner)
                eye = torch.eye(n, dtype=dtype).expand(*batch, n, n)
                solves, weights, _, _ = contour_integral_quad(op, eye, inverse=True, num_contour_quadrature=sc["Q"])
                M = (solves * weights).sum(0).to(torch.float64)
                fin["gram"] = rel(M @ M.mT, Kinv)
                # ... and the forward quadrature (inverse=False, what contour-integral sampling uses) is a root of K itself
                solves, weights, _, _ = contour_integral_quad(op, eye, inverse=False, num_contour_quadrature=sc["Q"])
                M2 = (solves * weights).sum(0).to(torch.float64)
                fin["gramsqrt"] = rel(M2 @ M2.mT, K64)
                # contour-integral sampling: shape (k, *batch, n), independent draws and members, covariance K (one-hot noise device of C18)
                if n <= 8 and not precond and not extra:
                    from .. import numeric

                    st.enter_context(settings.ciq_samples(True))
                    msg = numeric.sampling_covariance_check(lambda: op.zero_mean_mvn_samples(2), K64, 2, dtype, "lanczos", affine_base=4321 + sc["id"])
                    fin["sample_ok"] = msg is None
                    if msg:
                        fin["sample_msg"] = msg[:200]
            # public entry point
            rarg = rhs[..., 0] if (c == 0 and not batch) else rhs
            once = op.sqrt_inv_matmul(rarg)
            if list(once.shape) != list(rarg.shape):
                fin["shape_ok"] = False
            elif not precond:
                twice = op.sqrt_inv_matmul(once)
                fin["twice"] = rel(twice, (Kinv @ (r64[..., 0] if rarg.dim() == r64.dim() - 1 else r64).unsqueeze(-1)).squeeze(-1) if rarg.dim() == r64.dim() - 1 else Kinv @ r64)
            both = op.sqrt_inv_matmul(rhs, lhs) if not extra else None
            if extra:
                pass
            elif not (isinstance(both, tuple) and list(both[0].shape) == list(batch) + [2, max(1, c)] and list(both[1].shape) == list(batch) + [2]):
                fin["shape_ok"] = False
            else:
                if not precond:
                    fin["left"] = rel(both[0], l64 @ Kinvsqrt @ r64)
                fin["leftdiag"] = rel(both[1], (l64 @ Kinv * l64).sum(-1))
    except Exception as e:  # noqa
        return dict(error="raised " + exc_summary(e))
    return dict(kind="ciq", cfg=dict(n=n, f32=dtype == torch.float32, tight=sc["tight"]), runs=[], final=fin)


def scenarios(tier, seed, cases):
    fams = ["uniform", "clustered", "geometric"]
    out = []
    # (a) every shape case from TLC, with varying numerics
    for k, cs in enumerate(sorted(cases, key=lambda x: json.dumps(x, sort_keys=True))):
        h = lambda q: _h(k, q, 13)
        out.append(dict(kind="minres", id=k, seed=seed * 7919 + k, n=cs["n"], opb=cs["opb"], rhs_batch=cs["rhs"]["batch"], cols=cs["rhs"]["cols"], shifts=cs["shifts"],
                        expect=cs["expect"], family=fams[h(1) % 3], kappa=[1, 10, 100][h(2) % 3] if cs["n"] > 1 else 1, precond=["none", "jacobi", "lowrank*1e-4", "jacobi*1e4"][h(3) % 4],
                        tol=[1e-4, 1e-2, 1e-6][h(4) % 3], dt="f32" if h(5) % 4 == 0 else "f64", zero_col=h(6) % 3 == 0, neg_shift=h(7) % 5 == 0))
    base = len(out)
    # (b) numeric drivers
    N = 60 if tier == "quick" else 500
    sizes = [1, 2, 3, 7, 12, 20, 30, 40]
    for i in range(N):
        h = lambda q: _h(i, q, 17)
        n = sizes[h(1) % len(sizes)]
        dt = "f32" if h(2) % 4 == 0 else "f64"
        kap = [1, 10, 100, 1e3, 1e4][h(3) % (3 if dt == "f32" else 5)] if n > 1 else 1
        opb = [[], [2]][h(4) % 2]
        cols = [0, 1, 3][h(5) % 3] if not opb else [1, 3][h(5) % 2]
        sh = [[-1], [], [3], [2] + opb][h(6) % 4]
        S = 1 if sh in ([-1], []) else sh[0]
        nshift = 1 if sh == [-1] else int(math.prod(sh))
        expect = ([S] if nshift > 1 else []) + opb + [n] + ([] if cols == 0 else [cols])
        out.append(dict(kind="minres", id=base + i, seed=seed * 104729 + i, n=n, opb=opb, rhs_batch=opb, cols=cols, shifts=sh, expect=expect, family=fams[h(7) % 3], kappa=kap,
                        precond=["none", "jacobi", "exact", "lowrank", "jacobi*1e4"][h(8) % 5], tol=[1e-4, 1e-2, 1e-6][h(9) % 3], dt=dt, zero_col=h(10) % 4 == 0, neg_shift=h(11) % 6 == 0))
    base = len(out)
    # (b') shifts of very different difficulty, the easiest first, on systems that need more than one convergence check (every 10 iterations)
    k = 0
    for n in (20, 30, 40):
        for kap in (1e2, 1e3, 1e4):
            for sh in ([2], [3]):
                k += 1
                if tier == "quick" and k % 2:
                    continue
                out.append(dict(kind="minres", id=base + k, seed=seed * 15485863 + k, n=n, opb=[], rhs_batch=[], cols=1 + k % 2, shifts=sh, expect=[sh[0], n, 1 + k % 2],
                                family=fams[k % 3], kappa=kap, precond="none", tol=[1e-4, 1e-6][k % 2], dt="f64", zero_col=False, neg_shift=False, shift_spread=True))
    # (b'') an entirely zero right-hand side: zero answer in the documented shape (several shifts, batched operator, vector / matrix)
    k0 = len(out) + 100
    k = 0
    for sh in ([-1], [3], [2, 2]):
        for opb in ([], [2]):
            if sh == [2, 2] and not opb:
                continue
            for cols in (0, 2):
                if opb and cols == 0:
                    continue
                k += 1
                S_ = 1 if sh == [-1] else sh[0]
                nshift = 1 if sh == [-1] else int(math.prod(sh))
                expect = ([S_] if nshift > 1 else []) + opb + [6] + ([] if cols == 0 else [cols])
                out.append(dict(kind="minres", id=k0 + k, seed=seed * 7 + k, n=6, opb=opb, rhs_batch=opb, cols=cols, shifts=sh, expect=expect, family=fams[k % 3], kappa=10,
                                precond="none", tol=1e-4, dt="f64", zero_col=False, neg_shift=False, zero_all=True))
    base = len(out) + 200
    # (c) contour quadrature
    N = 48 if tier == "quick" else 300
    classes = ["Dense", "AddedDiag", "AddedDiagPrecond", "Diag", "ConstDiag", "Identity"]
    for i in range(N):
        h = lambda q: _h(i, q, 19)
        n = [1, 3, 8, 15, 20][h(1) % 5]
        if i < (6 if tier == "quick" else 24):
            out.append(dict(kind="ciq", id=base + 5000 + i, seed=seed * 613 + i, n=[8, 12, 16][i % 3], batch=[[], [2]][i % 2], cols=[1, 3][i % 2], cls="AddedDiagPrecond",
                            rhs_extra=[], family=fams[0], kappa=10, dt="f64", tight=True, Q=25, small_diag=True))
        bt = [[], [2]][h(2) % 2]
        out.append(dict(kind="ciq", id=base + i, seed=seed * 1299709 + i, n=n, batch=bt, cols=[0, 1, 3][h(3) % 3], cls=classes[i % len(classes)],
                        rhs_extra=[[], [2], [3]][h(9) % 3] if (bt and classes[i % len(classes)] in ("Dense", "AddedDiag")) else [],
                        family=fams[h(4) % 2 * 2], kappa=[1, 10, 100][h(5) % 3] if n > 1 else 1, dt="f32" if h(6) % 5 == 0 else "f64", tight=h(7) % 2 == 0, Q=[15, 25][h(8) % 2]))
    return out


def _record(sc):
    try:
        t = record_minres(sc) if sc["kind"] == "minres" else record_ciq(sc)
    except Exception as e:  # noqa
        t = dict(error="harness: " + exc_summary(e))
    return t


def validate(traces, tag):
    path = os.path.join(core.WORK, "traces_c11_%s.json" % tag)
    with open(path, "w") as f:
        json.dump(traces, f)
    r = tlc.run("Trace_C11", "c11.trace." + tag, dict(MrVariant="code"), workers=1, timeout=3000, env=dict(TRACE_FILE=path), heap="8g")
    return r, {v["tid"]: v for v in r["out"]}


def run(tier, seed):
    res = core.Result(PROP, tier, seed)
    r = tlc.run("MC_C11", "c11.mc.shapes", dict(MrVariant="code", Mode="shapes"), invariants=INVS, timeout=900)
    rc = tlc.run("MC_C11", "c11.mc.control", dict(MrVariant="code", Mode="control"), invariants=INVS, timeout=900)
    if r["violated"] or rc["violated"]:
        raise core.MachineryError("model violates %s" % (r["violated"] or rc["violated"]))
    res.add_tlc("MC_C11(shapes)", r)
    res.add_tlc("MC_C11(control)", rc)
    rl = tlc.run("MC_C11", "c11.mc.live", dict(MrVariant="code", Mode="control"), properties=["Termination"], spec="FairSpec", timeout=900)
    if rl["violated"]:
        raise core.MachineryError("control model: the MINRES loop does not always terminate")
    res.add_tlc("MC_C11(liveness)", rl)
    rej = {}
    for v, mode, inv in (("check_every_iteration", "control", "InvCheckpoints"), ("no_extra_iterations", "control", "InvBudget"), ("keeps_shift_dim", "shapes", "InvShiftDim")):
        rv = tlc.run("MC_C11", "c11.mc.%s" % v, dict(MrVariant=v, Mode=mode), invariants=INVS, timeout=900)
        rej[v] = rv["violated"]
        if rv["violated"] != inv:
            raise core.MachineryError("slipped variant %s not rejected by %s (got %s)" % (v, inv, rv["violated"]))
    res.notes["slipped_variants_rejected_by"] = rej
    cases = [b["case"] for b in r["out"]]
    scs = scenarios(tier, seed, cases)
    recs = core.pmap(_record, scs, chunksize=2)
    traces = []
    for sc, t in zip(scs, recs):
        if "error" not in t:
            t["tid"] = sc["id"]
            traces.append(t)
    good = dict(kind="minres", tid=900000, cfg=dict(n=4, max_iter=1000, f32=False, lgtol=-13288, lgk=1000, lgfloor=-30000, pshift=False),
                runs=[dict(m=j, res=-3000 * j, its=j + 2) for j in range(1, 6)],
                final=dict(shape_ok=True, finite=True, zero_ok=True, scale=-99000, err=-20000, full=-40000, erralt=-20000, fullalt=-40000, iters=7, obs=[False] * 7))
    c1 = json.loads(json.dumps(good)); c1["tid"] = 900001; c1["runs"][3]["res"] = -1000
    c2 = json.loads(json.dumps(good)); c2["tid"] = 900002; c2["final"]["err"] = -2000
    g2 = dict(kind="ciq", tid=900003, cfg=dict(n=4, f32=False, tight=True), runs=[],
              final=dict(shape_ok=True, finite=True, invsqrt=-30000, sqrt=-30000, twice=-30000, left=-30000, leftdiag=-30000, noshift=-30000, gram=-30000, gramsqrt=-30000, sample_ok=True))
    c3 = json.loads(json.dumps(g2)); c3["tid"] = 900004; c3["final"]["gram"] = -1000
    tr, verdicts = validate(traces + [good, c1, c2, g2, c3], tier)
    res.add_tlc("Trace_C11", tr)
    if any(verdicts.get(k, {}).get("fails") != [] for k in (900000, 900003)) or any(not verdicts.get(k, {}).get("fails") for k in (900001, 900002, 900004)):
        raise core.MachineryError("canary traces: good ones must be accepted, corrupted ones rejected: %s" % [verdicts.get(k) for k in range(900000, 900005)])
    drift = 0
    for sc, t in zip(scs, recs):
        what = ("minres|%s|%s" % (sc["precond"].split("*")[0], sc["dt"])) if sc["kind"] == "minres" else ("ciq|%s|%s" % (sc["cls"], sc["dt"]))
        if "error" in t:
            res.violation("%s|%s|%s" % (PROP, what, core.failure_kind(dict(kind="raised", msg=t["error"]))), "scenario %s: %s" % (sc, t["error"]), dict(scenario=sc))
            continue
        res.traces += 1
        res.evaluations += len(t["runs"]) + 1
        res.nontrivial.add(what + "|n=%d" % sc["n"])
        v = verdicts.get(sc["id"])
        if v is None:
            raise core.MachineryError("no verdict for trace %d" % sc["id"])
        drift += bool(v["drift"])
        for cl in sorted({f.split("@")[0] for f in v["fails"]}):
            res.violation("%s|%s|%s" % (PROP, what, cl), "scenario %s: clause %s fails (%s; measurements %s)" % (sc, cl, [f for f in v["fails"] if f.startswith(cl)][0], t["final"]),
                          dict(scenario=sc))
    res.notes["control_model_drift_traces"] = drift
    res.notes["shape_cases_from_TLC"] = len(cases)
    res.samples = [dict(scenario=s) for s in scs[:2]]
    res.rule = ("all TLC shape cases (operator batch x rhs x shift tensor, n in {1, 5}) plus seeded drivers: spectrum family x kappa <= 1e4 x size 1..40 x preconditioner x "
                "tolerance x zero columns x negative shifts x dtype; contour quadrature on Dense / AddedDiag (with and without pivoted-Cholesky preconditioner) / Diag / "
                "ConstantDiag / Identity, sizes <= 20, kappa <= 1e2, 15 and 25 nodes, default and tight MINRES tolerance")
    res.exhaustive = False
    res.assumptions = ["error bound at the configured tolerance: tolerance x (sqrt(kappa) + 1) x 10", "quadrature identities at 5e-3 (default MINRES tolerance) / 1e-5 (tight)"]
    return res


def replay(rec, path):
    sc = rec["scenario"]
    t = _record(sc)
    if "error" in t:
        print("  ", t["error"])
        print("VIOLATION property=%s replay=%s" % (PROP, path))
        return 1
    t["tid"] = sc["id"]
    _, verdicts = validate([t], "replay")
    v = verdicts[sc["id"]]
    if v["fails"]:
        print("  failing clauses:", v["fails"], t["final"])
        print("VIOLATION property=%s replay=%s" % (PROP, path))
        return 1
    print("now conforms")
    return 0
