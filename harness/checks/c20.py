"""C20 - utility kernels equal their dense definitions (spec/LOUtils.tla, spec/MC_C20.tla)."""
import copy

import torch

from .. import bind, core, numeric, tlc
from ..replay import compare_tensor, exc_summary

PROP = "C20"


def _T(j, dtype):
    return bind.tensor(j, dtype)


def _run(beh, dtype):
    """-> list of (label, got, expect or None for relational) or raises"""
    import linear_operator
    from linear_operator.utils import interpolation, permutation, sparse, toeplitz
    from linear_operator.utils.pinverse import stable_pinverse
    from linear_operator.utils.qr import stable_qr

    c, a = beh["case"], beh["args"]
    k = c["kernel"]
    E = beh["expect"]
    long = torch.long
    if k == "toeplitz":
        return [("toeplitz(c, r)", toeplitz.toeplitz(_T(a["c"], dtype), _T(a["r"], dtype)), E)]
    if k == "sym_toeplitz":
        return [("sym_toeplitz(c)", toeplitz.sym_toeplitz(_T(a["c"], dtype)), E)]
    if k == "toeplitz_getitem":
        cc, rr = _T(a["c"], dtype), _T(a["r"], dtype)
        n = cc.shape[0]
        got = torch.stack([torch.stack([toeplitz.toeplitz_getitem(cc, rr, i, j) for j in range(n)]) for i in range(n)])
        gs = torch.stack([torch.stack([toeplitz.sym_toeplitz_getitem(cc, i, j) for j in range(n)]) for i in range(n)])
        sym = dict(shape=[n, n], data=[int(cc[abs(i - j)]) for i in range(n) for j in range(n)])
        return [("toeplitz_getitem(c, r, i, j) for all i, j", got, E), ("sym_toeplitz_getitem(c, i, j) for all i, j", gs, sym)]
    if k == "toeplitz_matmul":
        return [("toeplitz_matmul(c, r, x)", toeplitz.toeplitz_matmul(_T(a["c"], dtype), _T(a["r"], dtype), _T(a["x"], dtype)), E)]
    if k == "sym_toeplitz_matmul":
        return [("sym_toeplitz_matmul(c, x)", toeplitz.sym_toeplitz_matmul(_T(a["c"], dtype), _T(a["x"], dtype)), E)]
    if k == "toeplitz_deriv":
        return [("sym_toeplitz_derivative_quadratic_form(u, v)",
                 toeplitz.sym_toeplitz_derivative_quadratic_form(_T(a["u"], dtype), _T(a["v"], dtype)), E)]
    if k == "left_interp":
        return [("left_interp(idx, vals, x)", interpolation.left_interp(_T(a["ix"], long), _T(a["iv"], dtype), _T(a["x"], dtype)), E)]
    if k == "left_t_interp":
        return [("left_t_interp(idx, vals, x, m)", interpolation.left_t_interp(_T(a["ix"], long), _T(a["iv"], dtype), _T(a["x"], dtype), a["m"]), E)]
    if k == "sparse_from_iv":
        sp = sparse.make_sparse_from_indices_and_values(_T(a["ix"], long), _T(a["iv"], dtype), a["m"])
        outs = [("make_sparse_from_indices_and_values(idx, vals, m).to_dense()", sp.to_dense(), E)]
        # scalar lookups in the (un-coalesced) interpolation matrix: entry by entry the same as its densification - also when two
        # interpolation points coincide (duplicate coordinates, whose values add up)
        ix = _T(a["ix"], long)
        variants = [("", sp)]
        if ix.shape[-1] >= 2:
            ixd = ix.clone()
            ixd[..., 1] = ixd[..., 0]
            variants.append((" [coinciding interpolation points]", sparse.make_sparse_from_indices_and_values(ixd, _T(a["iv"], dtype), a["m"])))
        for tag, s in variants:
            if s.dim() > 2:
                continue          # sparse_getitem is specified for 1-d / 2-d sparse tensors only
            D = s.to_dense()
            import itertools

            got = torch.stack([torch.as_tensor(sparse.sparse_getitem(s, idx), dtype=dtype).reshape(()) for idx in itertools.product(*[range(k_) for k_ in D.shape])]).reshape(D.shape)
            outs.append(("sparse_getitem(S, (i, j)) for all entries" + tag, got, dict(tensor=D)))
        return outs
    if k in ("bdsmm", "dsmm"):
        S = _T(a["s"], dtype)
        X = _T(a["x"], dtype)
        sp = sparse.to_sparse(S) if S.dim() <= 2 or True else None
        if k == "bdsmm":
            return [("bdsmm(sparse, dense)", sparse.bdsmm(S.to_sparse(), X), E)]
        Xg = X.clone().requires_grad_(True)
        out = linear_operator.dsmm(S.to_sparse(), Xg)
        (g,) = torch.autograd.grad(out.sum(), Xg)
        gexp = S.mT.sum(-1, keepdim=True).expand(*torch.broadcast_shapes(S.shape[:-2], X.shape[:-2]), S.shape[-1], X.shape[-1])
        gexp = gexp.sum_to_size(X.shape) if gexp.shape != X.shape else gexp
        return [("dsmm(sparse, dense)", out.detach(), E), ("gradient of dsmm(sparse, dense).sum() w.r.t. dense", g, dict(tensor=gexp))]
    if k == "sparse_getitem":
        S = _T(a["s"], dtype)
        sp = S.to_sparse()
        n, m = S.shape
        outs = []
        for idx in [(0,), (n - 1, slice(None)), (slice(None), 0), (slice(0, n), slice(None)), (slice(None), slice(0, max(1, m - 1))), (n - 1, m - 1),
                    (slice(max(0, n - 2), n), slice(None))]:
            r = sparse.sparse_getitem(sp, idx)
            outs.append(("sparse_getitem(sparse, %s)" % (idx,), r.to_dense() if r.is_sparse else r, dict(tensor=S[idx])))
        outs.append(("the sparse tensor after the lookups", sp.to_dense(), dict(tensor=S)))
        # a slice that drops no stored entry (the leading row / column holds none): the input must survive, a second lookup must agree
        for dim in (0, 1):
            S2 = S.clone()
            S2.select(dim, 0).zero_()
            if n < 2 or m < 2 or not S2.any():
                continue
            sp2 = S2.to_sparse()
            idx = (slice(1, None), slice(None)) if dim == 0 else (slice(None), slice(1, None))
            for rep in (1, 2):
                r = sparse.sparse_getitem(sp2, idx)
                outs.append(("sparse_getitem(sparse with empty leading %s, %s), call %d" % ("row" if dim == 0 else "column", idx, rep),
                             r.to_dense() if r.is_sparse else r, dict(tensor=S2[idx])))
            outs.append(("the sparse tensor after a slice that drops no entry", sp2.to_dense(), dict(tensor=S2)))
        return outs
    if k == "sparse_repeat":
        S = _T(a["s"], dtype)
        return [("sparse_repeat(sparse, *%s).to_dense()" % a["reps"], sparse.sparse_repeat(S.to_sparse(), *a["reps"]).to_dense(), E)]
    if k == "to_sparse":
        S = _T(a["s"], dtype)
        return [("to_sparse(dense).to_dense()", sparse.to_sparse(S).to_dense(), E)]
    if k == "apply_permutation":
        M, L, R = _T(a["m"], dtype), _T(a["left"], long), _T(a["right"], long)
        outs = [("apply_permutation(M, left, right)", permutation.apply_permutation(M, L, R), E)]
        return outs
    if k == "inverse_permutation":
        return [("inverse_permutation(p)", permutation.inverse_permutation(_T(a["p"], long)).to(dtype), E)]
    if k in ("qr", "pinverse") and a.get("zero_col"):
        # rank-deficient input: the stabilised factorization must stay finite and (nearly) reproduce A
        A = _T(a["a"], dtype)
        if k == "qr":
            Q, Rr = stable_qr(A)
            fin = torch.tensor(float(torch.isfinite(Q).all() and torch.isfinite(Rr).all()))
            # the stabilisation may touch only what is singular: Q R - A is the 1e-6 jitter times q_j in the zero column j and rounding elsewhere
            zc = (A.abs().sum(-2) == 0)                                          # (..., cols)
            dev = ((Q @ Rr - A) * (~zc).unsqueeze(-2).to(dtype)).abs().max() / max(1.0, float(A.abs().max()))
            thr = 1e-10 if dtype == torch.float64 else 1e-4
            return [("stable_qr (zero column): finite", fin, dict(tensor=torch.tensor(1.0))),
                    ("stable_qr (zero column): Q R = A on the regular columns (deviation %.2g)" % float(dev), torch.tensor(float(dev <= thr)), dict(tensor=torch.tensor(1.0))),
                    ("stable_qr (zero column): Q R ~ A", (Q @ Rr - A).abs().max().clamp_min(1e-3).log10().floor(), dict(tensor=torch.tensor(-3.0)))]
        P = stable_pinverse(A)
        fin = torch.tensor(float(torch.isfinite(P).all()))
        return [("stable_pinverse (zero column): finite", fin, dict(tensor=torch.tensor(1.0)))]
    if k == "qr":
        A = _T(a["a"], dtype)
        Q, Rr = stable_qr(A)
        kk = min(A.shape[-2:])
        eye = torch.eye(Q.shape[-1], dtype=dtype).expand(*A.shape[:-2], Q.shape[-1], Q.shape[-1])
        return [("stable_qr: Q R", Q @ Rr, E), ("stable_qr: Q^T Q", Q.mT @ Q, dict(tensor=eye)), ("stable_qr: R upper triangular", Rr - Rr.triu(), dict(tensor=torch.zeros_like(Rr)))]
    if k == "pinverse":
        A = _T(a["a"], dtype)
        P = stable_pinverse(A)
        m_, n_ = A.shape[-2:]
        if m_ >= n_:
            return [("stable_pinverse(A) @ A", P @ A, dict(tensor=torch.eye(n_, dtype=dtype).expand(*A.shape[:-2], n_, n_)))]
        return [("A @ stable_pinverse(A)", A @ P, dict(tensor=torch.eye(m_, dtype=dtype).expand(*A.shape[:-2], m_, m_)))]
    raise KeyError(k)


def _replay(beh):
    fails = []
    for dtype in (torch.float64, torch.float32):
        try:
            outs = _run(beh, dtype)
        except Exception as e:  # noqa
            fails.append((str(dtype)[6:], "call", "raised " + exc_summary(e)))
            continue
        for label, got, exp in outs:
            if "tensor" in exp:
                ref = exp["tensor"].to(torch.float64)
                g = got.to(torch.float64) if torch.is_tensor(got) else torch.tensor(got, dtype=torch.float64)
                if list(g.shape) != list(ref.shape):
                    fails.append((str(dtype)[6:], label, "shape %s != expected %s" % (list(g.shape), list(ref.shape))))
                elif numeric.rel_err(g, ref) > numeric.tol(dtype) * 100:
                    fails.append((str(dtype)[6:], label, "value mismatch: relative error %.3g" % numeric.rel_err(g, ref)))
                continue
            # (float64: measured <= 1e-13 x scale on the unchanged tree for every kernel; a single-precision intermediate costs >= 1e-8)
            msg, err = compare_tensor(exp, got if torch.is_tensor(got) else torch.tensor(got), dtype, loose=50.0 if dtype == torch.float32 else 0.01, check_dtype=False)
            if msg:
                fails.append((str(dtype)[6:], label, msg))
    return fails


def run(tier, seed):
    res = core.Result(PROP, tier, seed)
    r = tlc.run("MC_C20", "c20." + tier, constants=dict(Tier=tier, Seed=seed, ValSeed=seed), workers=16, timeout=1800, heap="8g")
    res.add_tlc("MC_C20", r)
    behs = sorted(r["out"], key=lambda b: str(b["case"]))
    b0 = copy.deepcopy(next(b for b in behs if b["case"]["kernel"] == "left_interp"))
    b0["expect"]["data"][0] += 1
    if not _replay(b0):
        raise core.MachineryError("canary: corrupted expectation not rejected")
    outs = core.pmap(_replay, behs, chunksize=8)
    for beh, fails in zip(behs, outs):
        c = beh["case"]
        res.traces += 1
        res.evaluations += 2
        res.nontrivial.add((c["kernel"], c["n"], tuple(c["bk"]), tuple(c["br"]), c["rhs"], c["v"]))
        seen = set()
        for dt, label, msg in fails:
            feat = "rhs=%s" % c["rhs"] + (",batched" if c["bk"] or c["br"] else "") + (",n=1" if c["n"] == 1 else "")
            if c["kernel"] == "sparse_repeat":
                feat = "v=%d%s" % (c["v"], ",batched" if c["bk"] else "")
            sig = "%s|%s|%s|%s" % (PROP, c["kernel"], feat, core.failure_kind(dict(kind="raised" if label == "call" else "value", msg=msg)))
            if sig in seen:
                continue
            seen.add(sig)
            res.violation(sig, "%s n=%d kernel-batch=%s rhs-batch=%s rhs=%s v=%d dtype=%s: %s: %s" % (c["kernel"], c["n"], c["bk"], c["br"], c["rhs"], c["v"], dt, label, msg),
                          dict(case=beh))
    res.samples = [dict(case=b["case"], expect_shape=b["expect"].get("shape")) for b in behs[:4]]
    res.rule = ("kernel x size 1..4 x batch-shape pairs (incl. broadcasting against the right-hand side) x {vector, matrix} rhs x variant, exact expected "
                "values from the dense definitions of spec/LOUtils.tla; QR / pseudo-inverse by relation; float32 and float64")
    res.exhaustive = tier == "thorough"
    res.assumptions = ["nearly rank-deficient inputs of stable_qr / stable_pinverse are not generated (full-rank integer matrices only)"]
    return res


def replay(rec, path):
    fails = _replay(rec["case"])
    for f in fails:
        print("  ", f)
    if fails:
        print("VIOLATION property=%s replay=%s" % (PROP, path))
        return 1
    print("now conforms")
    return 0
