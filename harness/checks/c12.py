"""C12 - cached results are transparent (spec/LOCache.tla).

TLC explores every history of queries / derivations / settings toggles / returns to the parent object up to the depth bound on a
model of the memoize key discipline (the table of which cached methods honour their arguments is extracted from the live classes),
checks CacheOwned / CacheValid / DenStable, and prints each history with the exact dense matrix of every object.  The replay runs
the history on one real object, compares every answer with the exact matrix *relationally* (a fresh copy would give the same
relation), and after every step densifies every entry of every live object's _memoize_cache and checks that it is a valid
factorization of *that* object's matrix with the orientation / kind of its key.
"""
import copy
import json
import pickle

import torch

from .. import bind, core, numeric, tlc

PROP = "C12"
METHODS = dict(cholesky="_cholesky", root_decomposition="root_decomposition", root_inv_decomposition="root_inv_decomposition",
               diagonalization="diagonalization", svd="_svd", to_dense="to_dense")
INST = ["Dense", "Kron", "AddedDiag", "Toeplitz", "Chol", "KronAddedDiag", "Diag", "BlockDiag", "LRRAddedDiag", "Sum", "ConstMul", "BatchRepeat"]
REAL = dict(Dense="DenseLinearOperator", Kron="KroneckerProductLinearOperator", AddedDiag="AddedDiagLinearOperator",
            Toeplitz="ToeplitzLinearOperator", Chol="CholLinearOperator", KronAddedDiag="KroneckerProductAddedDiagLinearOperator",
            Diag="DiagLinearOperator", BlockDiag="BlockDiagLinearOperator", LRRAddedDiag="LowRankRootAddedDiagLinearOperator",
            Sum="SumLinearOperator", ConstMul="ConstantMulLinearOperator", BatchRepeat="BatchRepeatLinearOperator")
METHOD_ARG = {0: None, 1: "cholesky", 2: "symeig"}


def honors_table(cls_name):
    """which cached methods of the live class key their entries by the call arguments"""
    from linear_operator import operators as O

    C = getattr(O, REAL[cls_name])
    t = {}
    for name, meth in METHODS.items():
        f = getattr(C, meth)
        f = getattr(f, "fget", f)
        code = getattr(f, "__code__", None)
        names = code.co_names if code else ()
        t[name] = "_is_in_cache_ignore_args" not in names
    diag_like = issubclass(C, O.DiagLinearOperator)
    return t, diag_like


# ------------------------------------------------------------------ relations
def _check_answer(name, arg, res, A, dtype, toggles):
    """-> None or message. A exact dense (float64)."""
    kind = "lanczos" if toggles else "direct"
    t = numeric.tol(dtype, kind) * 20
    Ad = A.to(torch.float64)
    n = A.shape[-1]

    def close(X, Y, what):
        e = numeric.rel_err(numeric.dense(X).to(torch.float64), Y)
        return None if e <= t else "%s: relative error %.3g > %.1g" % (what, e, t)

    if name == "to_dense":
        return close(res, Ad, "to_dense() != matrix")
    if name == "diagonal":
        return close(res, Ad.diagonal(dim1=-2, dim2=-1), "diagonal() != diag(matrix)")
    if name == "cholesky":
        L = numeric.dense(res).to(torch.float64)
        tri = torch.triu(L) if arg else torch.tril(L)
        if not torch.equal(tri, L):
            return "cholesky(upper=%s) is not %s triangular" % (bool(arg), "upper" if arg else "lower")
        return close(L.mT @ L if arg else L @ L.mT, Ad, "cholesky(upper=%s) does not factorize the matrix" % bool(arg))
    if name == "root_decomposition":
        R = numeric.dense(res.root).to(torch.float64)
        return close(R @ R.mT, Ad, "root_decomposition(method=%s): R R^T != matrix" % METHOD_ARG[arg])
    if name == "root_inv_decomposition_vecs":
        return None       # a Lanczos (Krylov-space) inverse root: its value is C06 / C09's subject; what it leaves in the cache is judged by later queries
    if name == "root_inv_decomposition":
        R = numeric.dense(res.root).to(torch.float64)
        return close(R @ R.mT @ Ad, torch.eye(n, dtype=torch.float64).expand_as(Ad), "root_inv_decomposition(method=%s): R R^T A != I" % METHOD_ARG[arg])
    if name in ("diagonalization", "eigh"):
        w, Q = res
        Q = numeric.dense(Q).to(torch.float64)
        w = w.to(torch.float64)
        m = close(Q.mT @ Q, torch.eye(Q.shape[-1], dtype=torch.float64).expand(*Q.shape[:-2], Q.shape[-1], Q.shape[-1]), name + ": Q^T Q != I")
        return m or close(Q @ torch.diag_embed(w) @ Q.mT, Ad, name + ": Q diag(w) Q^T != matrix")
    if name == "svd":
        U, S, V = res
        U, V, S = numeric.dense(U).to(torch.float64), numeric.dense(V).to(torch.float64), S.to(torch.float64)
        if (S < -1e-9).any():
            return "svd: negative singular values"
        return close(U @ torch.diag_embed(S) @ V.mT, Ad, "svd: U diag(S) V^T != matrix")
    if name == "solve":
        B, X = res
        return close(Ad @ X.to(torch.float64), B.to(torch.float64), "solve: A X != B")
    if name == "logdet":
        return close(res.to(torch.float64), torch.logdet(Ad), "logdet != log|A|")
    if name == "inv_quad_logdet":
        B, (iq, ld) = res
        m = close(ld.to(torch.float64), torch.logdet(Ad), "inv_quad_logdet: logdet term")
        ref = (B.to(torch.float64).mT @ torch.linalg.solve(Ad, B.to(torch.float64))).diagonal(dim1=-2, dim2=-1).sum(-1)
        return m or close(iq.to(torch.float64), ref, "inv_quad_logdet: inv_quad term")
    raise KeyError(name)


def _check_krylov(name, res, A, dtype):
    """Lanczos-type answers (above max_cholesky_size): exact only on the Krylov space they span - they must equal the orthogonal compression
    of the matrix (of its inverse) onto that space (the relation of C06 / C09)"""
    from .c06 import _compression

    Ad = A.to(torch.float64)
    t = 2e-3 if dtype == torch.float64 else 5e-2
    scale = max(1.0, float(Ad.abs().max()))

    def close(X, Y, what):
        e = float((X - Y).abs().max()) / scale
        return None if e <= t else "%s: deviation %.3g > %.1g (relative to max|A|)" % (what, e, t)

    if name == "root_decomposition":
        R = numeric.dense(res.root).to(torch.float64)
        comp, rank = _compression(R, Ad)
        return close(R @ R.mT, comp, "Lanczos root: R R^T is not the compression of the matrix onto span(R) (rank %d)" % rank)
    if name == "diagonalization":
        w, Q = res
        Q = numeric.dense(Q).to(torch.float64)
        w = w.to(torch.float64)
        G = Q.mT @ Q
        kept = (G.diagonal(dim1=-1, dim2=-2) > 0.5).to(torch.float64)
        m = close(G, torch.diag_embed(kept), "Lanczos diagonalization: Q^T Q is not a 0/1 diagonal")
        comp, rank = _compression(Q, Ad)
        return m or close(Q @ torch.diag_embed(w) @ Q.mT, comp, "Lanczos diagonalization: Q diag(w) Q^T is not the compression of the matrix onto span(Q) (rank %d)" % rank)
    if name == "root_inv_decomposition":
        R = numeric.dense(res.root).to(torch.float64)
        U, Sv, _ = torch.linalg.svd(R, full_matrices=False)
        rank = int((Sv > 1e-7 * Sv.max(-1, keepdim=True)[0]).sum(-1).min())
        Qk = U[..., :, :rank]
        M = Qk @ torch.linalg.inv(Qk.mT @ Ad @ Qk) @ Qk.mT
        e = float((R @ R.mT - M).abs().max()) / max(1e-30, float(M.abs().max()))
        return None if e <= t * 10 else "Lanczos inverse root: R R^T is not the inverse of the matrix's compression onto span(R): relative deviation %.3g" % e
    return None


def _ask(op, name, arg, dtype):
    n = op.shape[-1]
    if name == "to_dense":
        return op.to_dense()
    if name == "diagonal":
        return op.diagonal()
    if name == "cholesky":
        return op.cholesky(upper=bool(arg))
    if name == "root_decomposition" and arg == 3:
        from linear_operator import settings

        with settings.max_root_decomposition_size(2):
            return op.root_decomposition("lanczos")          # positional on purpose: the memoize key must still carry the argument
    if name == "root_decomposition" and arg == 0:
        return op.root_decomposition()                       # bare call: the slot without arguments
    if name == "root_decomposition":
        return op.root_decomposition(method=METHOD_ARG[arg])
    # (argument 0 = the bare call: the cache slot without arguments, which is also the one derived operators are handed transplanted factors in)
    if name == "root_inv_decomposition":
        return op.root_inv_decomposition() if arg == 0 else op.root_inv_decomposition(method=METHOD_ARG[arg])
    if name == "diagonalization" and arg == 3:
        from linear_operator import settings

        with settings.max_root_decomposition_size(2):
            return op.diagonalization("lanczos")
    if name == "diagonalization":
        return op.diagonalization() if arg == 0 else op.diagonalization(method=METHOD_ARG[arg])
    if name == "root_inv_decomposition_vecs":
        g = torch.Generator().manual_seed(17)
        v = torch.randn(*op.batch_shape, n, 1, generator=g, dtype=torch.float64).to(dtype)
        return op.root_inv_decomposition(initial_vectors=v, method="lanczos")
    if name == "eigh":
        return op.eigh()
    if name == "svd":
        return op.svd()
    B = ((torch.arange(n * 2, dtype=dtype).reshape(n, 2) % 5) - 2.0).expand(*op.batch_shape, n, 2).contiguous()
    if name == "solve":
        return B, op.solve(B)
    if name == "logdet":
        return op.logdet()
    if name == "inv_quad_logdet":
        return B, op.inv_quad_logdet(B, logdet=True)
    raise KeyError(name)


def _derive(op, name, dtype, den):
    n = op.shape[-1]
    new = bind.tensor(den, torch.float64)
    if name == "add_jitter":
        return op.add_jitter(1.0)
    if name == "transpose":
        return op.mT
    if name == "mul":
        return op * 2.0
    if name == "expand":
        return op.expand(2, *op.shape)
    if name == "getitem":
        return op[..., : n - 1, : n - 1]
    # the remaining operands are recovered from the exact expected matrix of the derived object
    A = numeric.dense(op).to(torch.float64) if False else None
    raise KeyError(name)


def _validate_cache(obj, A, dtype, toggles, skip_lanczos=False):
    """every entry of obj._memoize_cache must be a valid factorization of A (the matrix of the object holding it)"""
    msgs = []
    for key, val in list(getattr(obj, "_memoize_cache", {}).items()):
        name, args, kw = (key, (), {}) if not isinstance(key, tuple) else (key[0], key[1], pickle.loads(key[2]))
        if callable(name):
            name = getattr(name, "__name__", str(name))
        try:
            if name == "cholesky":
                upper = bool(args[0]) if args else bool(kw.get("upper", False))
                from linear_operator.operators import DiagLinearOperator

                if isinstance(val, DiagLinearOperator):
                    m = _check_answer("root_decomposition", 0, type("R", (), {"root": val})(), A, dtype, toggles)
                else:
                    m = _check_answer("cholesky", int(upper), val, A, dtype, toggles)
            elif skip_lanczos and name in ("root_decomposition", "root_inv_decomposition", "diagonalization"):
                m = None   # may be a Lanczos (Krylov-space) factor: judged by C06/C09
            elif name == "root_decomposition" and ("lanczos" in args or kw.get("method") == "lanczos"):
                m = _check_krylov("root_decomposition", val, A, dtype)      # stored under the key that names the Krylov method
            elif name == "root_decomposition":
                m = _check_answer("root_decomposition", 0, val, A, dtype, toggles)
            elif name == "root_inv_decomposition":
                m = _check_answer("root_inv_decomposition", 0, val, A, dtype, toggles)
            elif name == "diagonalization" and ("lanczos" in args or kw.get("method") == "lanczos"):
                m = _check_krylov("diagonalization", val, A, dtype)
            elif name == "diagonalization":
                m = _check_answer("diagonalization", 0, val, A, dtype, toggles)
            elif name == "svd":
                m = _check_answer("svd", 0, val, A, dtype, toggles)
            elif name == "to_dense":
                m = _check_answer("to_dense", 0, val, A, dtype, toggles)
            else:
                m = None
        except Exception as e:  # an entry that cannot even be densified is invalid
            m = "entry raised %s when densified" % type(e).__name__
        if m:
            msgs.append("cache entry %r of %s is not valid for the object holding it: %s" % (name, type(obj).__name__, m))
    return msgs


def replay_history(beh, dtype=torch.float64):
    """-> list of (step, kind, message)"""
    import contextlib

    from linear_operator import settings

    fails = []
    op = bind.build(beh["term"], dtype)
    objs = {1: (op, bind.tensor(beh["dense"], torch.float64))}
    cur = 1
    toggles = set()
    lanczos_objs = set()      # objects whose caches hold Lanczos by-products of a probe-vector query (documented 1e-6 tridiagonal jitter)
    with contextlib.ExitStack() as stack:
        for i, st in enumerate(beh["steps"]):
            act, name, arg = st["act"], st["name"], st["arg"]
            try:
                if act == "query":
                    o, A = objs[cur]
                    # With max_cholesky_size(0) the default-method roots / diagonalizations / log-determinants are Lanczos / stochastic
                    # quantities (exact only on the Krylov space, property C06/C05): they are *executed* (they fill the caches that
                    # later queries read) but their values are judged by C05/C06, not here.
                    lanczos_valued = "max_cholesky_size_0" in toggles and (
                        name in ("logdet", "inv_quad_logdet", "sample", "root_decomposition", "root_inv_decomposition", "diagonalization"))
                    if name == "sample":
                        if lanczos_valued:
                            o.zero_mean_mvn_samples(1)
                            m = None
                        else:
                            m = numeric.sampling_covariance_check(lambda: o.zero_mean_mvn_samples(1), A, 1, dtype,
                                                                  "lanczos" if cur in lanczos_objs else "direct")
                    else:
                        ans = _ask(o, name, arg, dtype)
                        if name == "root_inv_decomposition_vecs":
                            lanczos_objs.add(cur)
                        if name in ("root_decomposition", "diagonalization") and arg == 3:
                            m = _check_krylov(name, ans, A, dtype)
                        elif lanczos_valued:
                            m = _check_krylov(name, ans, A, dtype) if arg == 0 else None
                        else:
                            m = _check_answer(name, arg, ans, A, dtype, toggles or (cur in lanczos_objs))
                    if m:
                        fails.append((i, "answer", m))
                elif act == "derive":
                    o, A = objs[cur]
                    An = bind.tensor(st["den"], torch.float64)
                    n = A.shape[-1]
                    if name == "add_diagonal":
                        new = o.add_diagonal((An - A).diagonal(dim1=-2, dim2=-1).reshape(-1)[:n].to(dtype).contiguous())
                    elif name == "add_low_rank":
                        D = (An - A).reshape(-1, n, n)[0]
                        v = D[:, D.diagonal().argmax()] / D.diagonal().max().sqrt() if D.abs().max() > 0 else torch.zeros(n, dtype=torch.float64)
                        new = o.add_low_rank(v.reshape(n, 1).to(dtype))
                    elif name == "cat_rows":
                        new = o.cat_rows(An[..., n:, :n].to(dtype).contiguous(), An[..., n:, n:].to(dtype).contiguous())
                    else:
                        new = _derive(o, name, dtype, st["den"])
                    if cur in lanczos_objs:
                        lanczos_objs.add(st["obj"])      # derived operators may take over (updated) cached roots of their parent
                    cur = st["obj"]
                    objs[cur] = (new, An)
                    m = _check_answer("to_dense", 0, new.to_dense(), An, dtype, True)
                    if m:
                        fails.append((i, "answer", "derived operator (%s): %s" % (name, m)))
                elif act == "back":
                    cur = st["obj"]
                elif act == "toggle":
                    toggles.add(name)
                    stack.enter_context(settings.max_cholesky_size(0) if name == "max_cholesky_size_0"
                                        else settings.fast_computations(covar_root_decomposition=False))
            except Exception as e:  # noqa
                from ..replay import exc_summary

                fails.append((i, "raised", "raised " + exc_summary(e)))
                break
            # ---- CacheValid on the real objects, after every step
            for k, (o, A) in objs.items():
                for m in _validate_cache(o, A, dtype, toggles or (k in lanczos_objs), skip_lanczos="max_cholesky_size_0" in toggles):
                    fails.append((i, "cache", m))
            if fails:
                break
    return fails


def _sig(beh, i, kind, msg):
    """signature = class | how the queried object was derived + settings toggles | cache-relevant queries made on it before |
    failing step | failure kind  (the failing call, not the whole history, so that the same defect met through a longer history maps
    to the same finding)"""
    steps = beh["steps"]
    cur, parent, how = 1, {1: 0}, {1: "base"}
    asked = {1: set()}
    toggles = []
    for st in steps[:i]:
        if st["act"] == "derive":
            parent[st["obj"]] = cur
            how[st["obj"]] = st["name"]
            cur = st["obj"]
            asked[cur] = set()
        elif st["act"] == "back":
            cur = st["obj"]
        elif st["act"] == "toggle":
            toggles.append(st["name"])
        elif st["act"] == "query" and st["name"] not in ("diagonal", "solve", "logdet", "inv_quad_logdet", "to_dense"):
            asked[cur].add(st["name"])
    chain = []
    o = cur
    while o:
        chain.append(how[o])
        o = parent[o]
    f = steps[i]
    step = "%s(%s)" % (f["name"], f["arg"]) if f["act"] == "query" else f["name"]
    what = core.failure_kind(dict(kind="raised" if kind == "raised" else "value", msg=msg)) if kind != "cache" else "invalid-cache-entry"
    if kind == "answer" and msg.startswith("Lanczos "):
        what = "krylov-relation"          # the answer was a Krylov-space (Lanczos) object, judged by the compression relation
    # (the derivation chain is cut to the most recent derivation; earlier queries / toggles are part of the message only)
    return "|".join([PROP, beh["cls"], chain[0], step, what])


def _replay(beh):
    return replay_history(beh)


def run(tier, seed):
    res = core.Result(PROP, tier, seed)
    behs = []
    for inst, cls in enumerate(INST, start=1):
        t, diag_like = honors_table(cls)
        depth = 2 if tier == "quick" else 3
        c = dict(Depth=depth, Emit=True, FamilyOn=True, Inst=inst, Seed=seed, ValSeed=seed, DiagLike=diag_like, H_cholesky=t["cholesky"], H_root=t["root_decomposition"],
                 H_rootinv=t["root_inv_decomposition"], H_diag=t["diagonalization"], H_svd=t["svd"], H_todense=t["to_dense"])
        r = tlc.run("LOCache", "c12.%s.%d" % (tier, inst), constants=c, invariants=["CacheOwned", "CacheValid", "EmitInv"],
                    properties=["DenStable"], workers=16, timeout=3000, heap="12g")
        res.add_tlc("LOCache[%s,depth=%d]" % (cls, depth), r)
        if r["violated"]:
            # the live key table makes two semantically different queries share a cache key: a genuine C12 violation of the code
            res.violation("%s|%s|key-discipline|%s" % (PROP, cls, r["violated"]),
                          "memoize key table of %s (extracted from the live class: %s) violates %s in the model:\n%s" % (cls, t, r["violated"], r["text"][-800:]),
                          dict(table=t, cls=cls))
            continue
        behs += r["out"]
    if tier == "quick":
        # plus a slice of the depth-3 histories of two instances
        for inst in (1, 6):
            t, diag_like = honors_table(INST[inst - 1])
            c = dict(Depth=3, Emit=True, FamilyOn=False, Inst=inst, Seed=seed, ValSeed=seed, DiagLike=diag_like, H_cholesky=t["cholesky"], H_root=t["root_decomposition"],
                     H_rootinv=t["root_inv_decomposition"], H_diag=t["diagonalization"], H_svd=t["svd"], H_todense=t["to_dense"])
            r = tlc.run("LOCache", "c12.q3.%d" % inst, constants=c, invariants=["CacheOwned", "CacheValid", "EmitInv"], workers=16,
                        timeout=3000, heap="12g")
            res.add_tlc("LOCache[%s,depth=3]" % INST[inst - 1], r)
            # TLC's print order depends on worker scheduling: sort before taking the fixed slice
            behs += sorted(r["out"], key=lambda b: json.dumps(b["steps"], sort_keys=True))[inst::7]
    # non-vacuity of the key discipline: a table in which cholesky ignores its arguments must be rejected for a non-diagonal class
    t, _ = honors_table("Dense")
    rv = tlc.run("LOCache", "c12.bad", constants=dict(Depth=2, Emit=False, FamilyOn=False, Inst=1, Seed=seed, ValSeed=seed, DiagLike=False, H_cholesky=False, H_root=True,
                                                      H_rootinv=True, H_diag=True, H_svd=True, H_todense=True),
                 invariants=["CacheValid"], workers=8, timeout=600, heap="4g")
    if rv["violated"] != "CacheValid":
        raise core.MachineryError("non-vacuity self-test failed: an argument-ignoring cholesky cache was accepted by the model")
    # canary: wrong dense for the base object must be rejected
    b0 = copy.deepcopy(next(b for b in behs if b["steps"][0]["act"] == "query" and b["steps"][0]["name"] == "cholesky"))
    b0["dense"]["data"][0] += 3
    if not replay_history(b0):
        raise core.MachineryError("canary: corrupted matrix was not rejected")
    outs = core.pmap(_replay, behs, chunksize=8)
    for beh, fails in zip(behs, outs):
        res.traces += 1
        res.evaluations += len(beh["steps"])
        res.nontrivial.add((beh["cls"], tuple((s["act"], s["name"], s["arg"]) for s in beh["steps"])))
        for i, kind, msg in fails:
            res.violation(_sig(beh, i, kind, msg), "%s history %s: step %d: %s" % (
                beh["cls"], [(s["act"], s["name"], s["arg"]) for s in beh["steps"]], i, msg), dict(history=beh))
    res.samples = [dict(cls=b["cls"], steps=[(s["act"], s["name"], s["arg"], s["obj"]) for s in b["steps"]]) for b in behs[:4]]
    res.rule = ("all histories up to the depth bound over 18 queries, 8 derivations, 2 settings toggles and return-to-parent, for 12 PD operator "
                "instances; each answer checked relationally against the exact matrix; every _memoize_cache entry of every live object "
                "validated after every step; distinct = (instance class, event sequence)")
    res.exhaustive = True
    res.assumptions = ["answers are compared with the exact matrix by relation (factorizations are not unique), which is what a fresh copy satisfies",
                       "tolerances: direct paths 1e-8 relative (float64); after a settings toggle the documented Lanczos jitter level"]
    return res


def replay(rec, path):
    if "history" not in rec:
        print("model-level finding:", rec.get("msg"))
        return 1
    fails = replay_history(rec["history"])
    for f in fails:
        print("  step %d [%s] %s" % f)
    if fails:
        print("VIOLATION property=%s replay=%s" % (PROP, path))
        return 1
    print("history now conforms")
    return 0
