"""C14 - copies, conversions and rebuilds denote the same matrix with the right dtype (spec/MC_C14.tla).

TLC enumerates class x batch x (source, target, torch-default) dtype x action with the expected attribute record (dtype of the floating
data, kinds of the tensor leaves, non-tensor structure, shape) and the exact dense matrix.  The replay builds the operator in the
source dtype under the given torch default dtype, applies the action and checks: same class tree and non-tensor arguments, dense value
to the target precision, dtype of the operator and of every floating leaf = expected, integer / boolean leaves keep their dtype, clones
share no storage, detach / requires_grad_ reach exactly the floating tensors, and (action "outputs") every tensor the operator returns
has the operator's dtype even when torch's default dtype differs.
"""
import copy

import torch

from .. import bind, core, tlc
from ..replay import compare_tensor, exc_summary

PROP = "C14"
DT = bind.DT


def _struct(op):
    from linear_operator.operators import LinearOperator

    kw = {}
    for k, v in sorted(op._kwargs.items()):
        if k in ("dtype", "device", "output_device"):
            continue   # not structure: these are exactly what the conversions are allowed to change
        if not torch.is_tensor(v) and not isinstance(v, LinearOperator):
            kw[k] = repr(dict(v)) if isinstance(v, dict) else (repr(v) if not callable(v) else getattr(v, "__name__", "fn"))
    nont = [repr(a) for a in op._args if not torch.is_tensor(a) and not isinstance(a, LinearOperator)]
    return (type(op).__name__, tuple(sorted(kw.items())), tuple(nont), tuple(_struct(a) for a in op._args if isinstance(a, LinearOperator)))


def _tensors(op):
    from linear_operator.operators import LinearOperator

    out = []
    for a in list(op._args) + [v for _, v in sorted(op._kwargs.items())]:
        if torch.is_tensor(a):
            out.append(a)
        elif isinstance(a, LinearOperator):
            out += _tensors(a)
    return out


def _overlap(a, b):
    if a.numel() == 0 or b.numel() == 0:
        return False
    sa, sb = a.untyped_storage(), b.untyped_storage()
    return sa.data_ptr() == sb.data_ptr()


def _apply(op, action, tgt):
    if action == "clone":
        return op.clone()
    if action == "detach":
        return op.detach()
    if action == "to_dtype":
        return op.to(tgt)
    if action == "type":
        return op.type(tgt)
    if action == "double":
        return op.double()
    if action == "float":
        return op.float()
    if action == "cpu":
        return op.cpu()
    if action == "rebuild":
        return op.representation_tree()(*op.representation())
    if action == "evaluate_kernel":
        return op.evaluate_kernel()
    if action == "requires_grad_":
        return op.requires_grad_(True)
    raise KeyError(action)


def _replay(beh):
    d = beh["desc"]
    src, tgt, default = DT[d["src"]], DT[beh["expect"]["dtype"]], DT[d["default"]]
    fails = []
    old = torch.get_default_dtype()
    torch.set_default_dtype(default)
    try:
        leaves = []
        # half of the cases construct with the dtype left implicit (= torch's default at construction time) ...
        bind.build.implicit_dtype = d["switch"] == 1
        try:
            op = bind.build(beh["term"], src, leaves, requires_grad=(d["action"] == "detach"))
        finally:
            bind.build.implicit_dtype = False
        # ... and switch torch's default dtype between construction and the copy / conversion
        if d["switch"] == 1:
            torch.set_default_dtype(torch.float64 if default == torch.float32 else torch.float32)
        # every floating tensor the constructor created or took over has the dtype the operator was built with - never torch's default by accident
        for i, a in enumerate(_tensors(op)):
            if a.is_floating_point() and a.dtype != src:
                fails.append(("constructed-dtype", "floating tensor #%d of the freshly built operator has dtype %s, the operator was built in %s (torch default %s)"
                              % (i, a.dtype, src, default)))
        # requires_grad reaches exactly the floating tensors it was set on: build again with ONE trainable leaf (the first, then the last floating
        # leaf) and count the trainable tensors of the operator and of its copy / conversion
        if d["action"] in ("clone", "to_dtype", "double", "float", "rebuild", "evaluate_kernel", "type"):
            lm = {}
            bind.build(beh["term"], src, leafmap=lm)
            fkeys = [k for k, t in lm.items() if t.is_floating_point()]
            for key in ([fkeys[0], fkeys[-1]] if len(fkeys) >= 2 else []):
                try:
                    opg = bind.build(beh["term"], src, requires_grad=frozenset([key]))
                    cnt = sum(1 for a in _tensors(opg) if a.is_floating_point() and a.requires_grad)
                    if cnt != 1:
                        fails.append(("requires_grad-subset", "one trainable leaf %s, but %d floating tensors of the built operator require grad" % (key, cnt)))
                        continue
                    resg = _apply(opg, d["action"], tgt)
                    cnt2 = sum(1 for a in _tensors(resg) if a.is_floating_point() and a.requires_grad)
                    if cnt2 != 1 and d["action"] != "evaluate_kernel":
                        fails.append(("requires_grad-subset", "one trainable leaf %s, but %d floating tensors require grad after %s" % (key, cnt2, d["action"])))
                except Exception as e:  # noqa
                    fails.append(("requires_grad-subset", "raised " + exc_summary(e)))
        action = d["action"]
        if action == "outputs":
            X = torch.ones(op.shape[-1], 2, dtype=src)
            outs = [("to_dense()", lambda: op.to_dense()), ("op @ X", lambda: op @ X), ("diagonal()", lambda: op.diagonal()),
                    ("op[..., 0, :]", lambda: op[..., 0, :]), ("op.sum(-1)", lambda: op.sum(-1)), ("op.mT @ X", lambda: op.mT @ X),
                    ("op + X X^T (dense)", lambda: (op + torch.ones(*op.shape[-2:], dtype=src)).to_dense()),
                    ("(op * 2.0).to_dense()", lambda: (op * 2.0).to_dense()), ("op[..., :2, :2].to_dense()", lambda: op[..., :2, :2].to_dense()),
                    ("op.dtype", lambda: torch.empty(0, dtype=op.dtype))]
            if d["cls"] in ("Dense", "Diag", "ConstDiag", "Identity", "Toeplitz", "Chol", "Kron", "KronDiag", "AddedDiag", "Sum", "ConstMul", "BlockDiag"):
                outs += [("solve(X)", lambda: op.solve(X.expand(*op.batch_shape, *X.shape).contiguous())), ("logdet()", lambda: op.logdet()),
                         ("cholesky().to_dense()", lambda: op.cholesky().to_dense()), ("zero_mean_mvn_samples(2)", lambda: op.zero_mean_mvn_samples(2))]
            for label, f in outs:
                try:
                    r = f()
                except Exception:
                    continue   # whether the call is supported is judged elsewhere
                if torch.is_tensor(r) and r.is_floating_point() and r.dtype != src:
                    fails.append((label, "returned dtype %s, the operator's dtype is %s (torch default %s)" % (r.dtype, src, default)))
            return fails
        res = _apply(op, action, tgt)
        # ---- structure
        if _struct(res) != _struct(op):
            fails.append(("structure", "class tree / non-tensor arguments changed: %s -> %s" % (_struct(op), _struct(res))))
        # ---- dtype of the operator and of every tensor
        if res.dtype != tgt:
            fails.append(("dtype", "result dtype %s, expected %s" % (res.dtype, tgt)))
        t0, t1 = _tensors(op), _tensors(res)
        if len(t0) != len(t1):
            fails.append(("leaves", "number of tensor arguments changed %d -> %d" % (len(t0), len(t1))))
        else:
            for i, (a, b) in enumerate(zip(t0, t1)):
                if a.is_floating_point():
                    if b.dtype != tgt:
                        fails.append(("leaf-dtype", "floating tensor #%d has dtype %s, expected %s" % (i, b.dtype, tgt)))
                elif b.dtype != a.dtype:
                    fails.append(("leaf-dtype", "%s tensor #%d was cast to %s" % (a.dtype, i, b.dtype)))
                if action == "clone" and _overlap(a, b) and a.numel() > 0:
                    fails.append(("storage", "clone shares storage with the original (tensor #%d)" % i))
                if action == "detach" and b.requires_grad:
                    fails.append(("requires_grad", "detach() left requires_grad on tensor #%d" % i))
                if action == "requires_grad_" and b.is_floating_point() and not b.requires_grad:
                    fails.append(("requires_grad", "requires_grad_(True) did not reach floating tensor #%d" % i))
        # ---- the flattened representation has exactly the leaves the specification lists for this term (kinds and dtypes, as a multiset:
        #      floating leaves in the target dtype, index data int64, masks bool)
        lab = {torch.float32: "f32", torch.float64: "f64", torch.int64: "i64", torch.int32: "i32", torch.bool: "bool"}
        try:
            got = sorted(lab.get(t.dtype, str(t.dtype)) for t in res.representation())
        except RuntimeError:
            got = None       # (operators without tensor arguments - Zero - cannot be flattened at all: a C01 / C02 finding)
        want = sorted(beh["expect"]["leaf_dtypes"])
        if got is not None and got != want:
            fails.append(("representation", "representation() of the result holds tensors %s, the specification lists %s" % (got, want)))
        # ---- value
        msg, err = compare_tensor(beh["dense"], res.to_dense(), tgt, loose=10.0, check_dtype=True)
        if msg:
            fails.append(("value", msg))
    except Exception as e:  # noqa
        fails.append(("raised", "raised " + exc_summary(e)))
    finally:
        torch.set_default_dtype(old)
    return fails


def run(tier, seed):
    res = core.Result(PROP, tier, seed)
    r = tlc.run_sharded("MC_C14", "c14." + tier, 8, dict(Tier=tier, Seed=seed, ValSeed=seed), invariants=["InvKinds"], timeout=3000)
    res.add_tlc("MC_C14", r)
    behs = sorted(r["out"], key=lambda b: b["desc"]["id"])
    b0 = copy.deepcopy(next(b for b in behs if b["desc"]["action"] == "clone" and b["desc"]["cls"] == "Dense"))
    b0["dense"]["data"][0] += 1
    if not _replay(b0):
        raise core.MachineryError("canary: corrupted matrix not rejected")
    outs = core.pmap(_replay, behs, chunksize=8)
    for beh, fails in zip(behs, outs):
        d = beh["desc"]
        res.traces += 1
        res.evaluations += 1
        res.nontrivial.add((d["cls"], tuple(d["b"]), d["src"], d["tgt"], d["default"], d["action"], d["switch"]))
        for what, msg in fails:
            kind = core.failure_kind(dict(kind="raised" if what == "raised" else "value", msg=msg)) if what in ("raised", "value") else what
            label = what if d["action"] == "outputs" and what not in ("raised",) else ""
            sig = "%s|%s|%s|%s%s" % (PROP, d["action"], d["cls"], kind, ("|" + label.split("(")[0]) if label else "")
            res.violation(sig, "%s batch=%s src=%s target=%s default=%s action=%s: %s: %s" % (beh["path"], d["b"], d["src"], beh["expect"]["dtype"],
                                                                                          d["default"], d["action"], what, msg), dict(case=beh))
    res.samples = [dict(desc=b["desc"], expect={k: v for k, v in b["expect"].items() if k != "structure"}) for b in behs[:3]]
    res.rule = ("class x batch x (source, target, torch default) dtype in {f32,f64}^3 x 11 actions (clone, detach, to, type, double, float, cpu, "
                "representation-tree rebuild, requires_grad_, evaluate_kernel, returned-tensor dtypes); distinct = the tuple")
    res.exhaustive = tier == "thorough"
    res.assumptions = ["CPU only (cuda() not exercised)", "half precision not exercised"]
    return res


def replay(rec, path):
    fails = _replay(rec["case"])
    for f in fails:
        print("  ", f)
    if fails:
        print("VIOLATION property=%s replay=%s" % (PROP, path))
        return 1
    print("now conforms")
    return 0
