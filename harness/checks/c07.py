"""C07 - gradients through operators equal gradients through the dense computation (spec/LOGrad.tla, spec/MC_C07.tla).

TLC computes, from the denotation alone, the exact Jacobian dA / d(theta_k) of the dense matrix with respect to every entry of every floating
leaf tensor of a term (central differences are exact because each entry of A is at most quadratic in each leaf entry; TLC checks that
assumption), for class x batch x nesting in the general and in the positive-definite families.  The replay back-propagates every public entry
point through the real operator and compares each leaf gradient with <dg/dA, D_k>, where dg/dA is obtained from the same scalar computed on
the dense matrix; right-hand sides likewise.  Functions only defined on symmetric matrices are compared along the symmetric directions of the
parameter space.  Subsets of parameters requiring grad, memory_efficient on / off, max_cholesky_size {default, 0}; the hand-written
_bilinear_derivative is compared position by position with representation().
"""
import contextlib
import copy
import warnings

import torch

from .. import bind, core, tlc
from ..replay import exc_summary


class ScaledUnitProbes:
    """torch.randn(k, *batch, n) with k == n returns sqrt(n) * (the n unit vectors): the stochastic trace estimator and its gradient become exact
    (the backward pass rescales by the squared probe norms, which average to n for Gaussian probes)"""

    def __init__(self, n):
        self.n, self.orig = n, torch.randn

    def __enter__(self):
        def fake(*size, **kw):
            if len(size) == 1 and not isinstance(size[0], int):
                size = tuple(size[0])
            if len(size) >= 2 and size[0] == self.n and size[-1] == self.n:
                z = torch.zeros(*size, dtype=kw.get("dtype") or torch.get_default_dtype())
                for s in range(self.n):
                    z[s, ..., s] = float(self.n) ** 0.5
                return z
            return self.orig(*size, **kw)

        torch.randn = fake
        return self

    def __exit__(self, *a):
        torch.randn = self.orig


PROP = "C07"
F64 = torch.float64


def _ints(shape, seed, lo=-2, hi=2):
    g = torch.Generator().manual_seed(seed)
    return torch.randint(lo, hi + 1, tuple(shape), generator=g).to(F64)


def entry_points(mode, square, batch, m, n):
    """name -> (library scalar(op, T), dense scalar(A, T), symmetric_only, tensors T (dict name -> tensor, those named r* get gradients))"""
    X = _ints([n, 2], 1) + 0.5
    Y = _ints([m, 2], 2) + 0.5
    W = _ints(batch + [m, 2], 3) + 0.25
    Wt = _ints(batch + [n, 2], 4) + 0.25
    Wn = _ints(batch + [m, n], 5) + 0.25
    eps = dict()
    eps["matmul"] = (lambda op, T: (W * (op @ T["rX"])).sum(), lambda A, T: (W * (A @ T["rX"])).sum(), False, dict(rX=X))
    eps["t_matmul"] = (lambda op, T: (Wt * (op.mT @ T["rY"])).sum(), lambda A, T: (Wt * (A.mT @ T["rY"])).sum(), False, dict(rY=Y))
    eps["to_dense"] = (lambda op, T: (Wn * op.to_dense()).sum(), lambda A, T: (Wn * A).sum(), False, {})
    eps["sum_rows"] = (lambda op, T: (Wn[..., 0] * op.sum(-1)).sum(), lambda A, T: (Wn[..., 0] * A.sum(-1)).sum(), False, {})
    if m > 1 and n > 1:
        eps["getitem"] = (lambda op, T: (Wn[..., 1:, :-1] * bind_dense(op[..., 1:, :-1])).sum(), lambda A, T: (Wn[..., 1:, :-1] * A[..., 1:, :-1]).sum(), False, {})
    if square:
        w = Wn[..., 0]
        eps["diagonal"] = (lambda op, T: (w * op.diagonal()).sum(), lambda A, T: (w * A.diagonal(dim1=-1, dim2=-2)).sum(), False, {})
    if mode == "psd":
        B = _ints(batch + [n, 2], 6) + 0.5
        Lf = _ints(batch + [2, n], 7) + 0.5
        Ws = _ints(batch + [n, 2], 8) + 0.25
        W2 = _ints(batch + [2, 2], 9) + 0.25
        Wsym = (Wn + Wn.mT) / 2
        sym = lambda A: (A + A.mT) / 2
        eps["solve"] = (lambda op, T: (Ws * op.solve(T["rB"])).sum(), lambda A, T: (Ws * torch.linalg.solve(sym(A), T["rB"])).sum(), True, dict(rB=B))
        eps["solve_left"] = (lambda op, T: (W2 * op.solve(T["rB"], T["rL"])).sum(), lambda A, T: (W2 * (T["rL"] @ torch.linalg.solve(sym(A), T["rB"]))).sum(), True, dict(rB=B, rL=Lf))
        eps["inv_quad"] = (lambda op, T: op.inv_quad(T["rB"]).sum(), lambda A, T: (T["rB"] * torch.linalg.solve(sym(A), T["rB"])).sum(), True, dict(rB=B))
        eps["logdet"] = (lambda op, T: op.logdet().sum(), lambda A, T: torch.logdet(sym(A)).sum(), True, {})
        eps["inv_quad_logdet"] = (lambda op, T: sum(x.sum() * c for x, c in zip(op.inv_quad_logdet(T["rB"], logdet=True), (1.0, 0.5))),
                                  lambda A, T: (T["rB"] * torch.linalg.solve(sym(A), T["rB"])).sum() + 0.5 * torch.logdet(sym(A)).sum(), True, dict(rB=B))
        eps["cholesky"] = (lambda op, T: (Wsym * _llt(bind_dense(op.cholesky()))).sum(), lambda A, T: (Wsym * sym(A)).sum(), True, {})
        eps["root_decomposition"] = (lambda op, T: (Wsym * _llt(bind_dense(op.root_decomposition().root))).sum(), lambda A, T: (Wsym * sym(A)).sum(), True, {})
        eps["root_inv_decomposition"] = (lambda op, T: (Wsym * _llt(bind_dense(op.root_inv_decomposition().root))).sum(),
                                         lambda A, T: (Wsym * torch.linalg.inv(sym(A))).sum(), True, {})
        # both outputs of one decomposition: the inverse root first, then the root of the same object (a cache hit above max_cholesky_size,
        # where one Function call produced both and its backward has to accumulate the two incoming gradients)
        def _both(op, T):
            Si = bind_dense(op.root_inv_decomposition().root)
            R = bind_dense(op.root_decomposition().root)
            return (Wsym * _llt(R)).sum() + (Wsym.flip(-1).flip(-2) * _llt(Si)).sum()
        eps["root_inv_then_root"] = (_both, lambda A, T: (Wsym * sym(A)).sum() + (Wsym.flip(-1).flip(-2) * torch.linalg.inv(sym(A))).sum(), True, {})
        eps["pivoted_cholesky"] = (lambda op, T: (Wsym * _llt(op.pivoted_cholesky(rank=n, error_tol=1e-12))).sum(), lambda A, T: (Wsym * sym(A)).sum(), True, {})
        eps["sqrt_inv_matmul"] = (lambda op, T: (op.sqrt_inv_matmul(T["rB"]) ** 2).sum(), lambda A, T: (T["rB"] * torch.linalg.solve(sym(A), T["rB"])).sum(), True, dict(rB=B))
    return eps


def _repeated_eigenvalues(op, rel=1e-4):
    """does the operator, or any square sub-operator it is built from, have (nearly) repeated eigenvalues?  Eigendecomposition-based roots
    (torch.linalg.eigh, Lanczos) have no defined derivative there (documented for torch.linalg.eigh: 'gradients ... will only be finite when A
    has distinct eigenvalues'), so their gradients are not judged on such inputs."""
    from linear_operator.operators import LinearOperator
    seen = []

    def walk(o):
        if isinstance(o, LinearOperator):
            seen.append(o)
            for a in list(o._args) + list(o._kwargs.values()):
                walk(a)
    walk(op)
    for o in seen:
        if o.shape[-1] != o.shape[-2] or o.shape[-1] < 2:
            continue
        try:
            with torch.no_grad():
                D = o.to_dense().to(F64)
            if float((D - D.mT).abs().max()) > 1e-9 * max(1.0, float(D.abs().max())):
                continue
            ev = torch.linalg.eigvalsh(D)
        except Exception:  # noqa
            continue
        gaps = (ev[..., 1:] - ev[..., :-1]).abs()
        if float(gaps.min()) <= rel * max(1.0, float(ev.abs().max())):
            return True
    return False


def bind_dense(x):
    return x.to_dense() if hasattr(x, "to_dense") else x


def _llt(L):
    return L @ L.mT


def _jac(leaf, numel_dense):
    return torch.tensor(leaf["jac"], dtype=F64).reshape(-1, numel_dense)      # (leaf numel, dense numel)


def _sym_directions(J, A_shape):
    """directions in the leaf's parameter space along which the matrix stays symmetric: e_k (+ e_k' when D_k' = D_k^T)"""
    K = J.shape[0]
    D = J.reshape(K, *A_shape)
    Dt = D.mT.reshape(K, -1)
    Df = D.reshape(K, -1)
    dirs, used = [], set()
    for k in range(K):
        if k in used:
            continue
        if torch.equal(Df[k], Dt[k]):
            dirs.append([k])
            used.add(k)
            continue
        match = [k2 for k2 in range(K) if k2 != k and k2 not in used and torch.equal(Df[k2], Dt[k])]
        if match:
            dirs.append([k, match[0]])
            used.update([k, match[0]])
    return dirs


def check(case):
    from linear_operator import settings as S

    d = case["desc"]
    A = bind.tensor(case["dense"], F64)
    batch, m, n = list(A.shape[:-2]), A.shape[-2], A.shape[-1]
    square = m == n
    leaves = case["leaves"]
    keys = [(tuple(lf["path"]), lf["ti"]) for lf in leaves]
    jacs = {k: _jac(lf, A.numel()) for k, lf in zip(keys, leaves)}
    masks = {}
    for k, lf in zip(keys, leaves):
        one = torch.ones(lf["shape"], dtype=F64)
        masks[k] = (torch.tril(one) if lf.get("tri") == "lower" else torch.triu(one) if lf.get("tri") == "upper" else one).reshape(-1)
    fails = []

    def owner(key):
        t, chain = case["term"], [case["term"]["cls"]]
        for i in key[0]:
            t = t["ops"][i]
            chain.append(t["cls"])
        return ">".join(chain)

    eps = entry_points(d["mode"], square, batch, m, n)
    subsets = [set(keys)]
    if len(keys) >= 2:
        subsets += [set(keys[0::2]), set(keys[1::2])]
    configs = [(False, 800), (True, 800)]
    if d["mode"] == "psd":
        configs += [(False, 0), (True, 0)]
    stats = dict(compared=0, skipped_directions=0)
    # classes that are only defined for symmetric arguments (products through roots, Cholesky-parametrised, every PSD family) are compared along
    # the symmetric directions of the parameter space for every entry point
    sym_case = d["mode"] == "psd" or any(k in case["path"] for k in ("Mul(", "PsdSum", "Chol"))
    own_probes = any(k in case["path"] for k in ("BlockDiag", "BlockInter", "BatchRepeat", "Kron", "SumKron"))   # draw probes per sub-block (cf. C05)
    for name, (flib, fden, symmetric_only, tensors) in eps.items():
        symmetric_only = symmetric_only or sym_case
        # dense reference
        Aref = A.clone().requires_grad_(True)
        Tref = {k: v.clone().requires_grad_(True) for k, v in tensors.items()}
        try:
            sref = fden(Aref, Tref)
            gref = torch.autograd.grad(sref, [Aref] + list(Tref.values()), allow_unused=True)
        except Exception:  # noqa
            stats["reference_undefined"] = stats.get("reference_undefined", 0) + 1      # e.g. a rank-deficient root has no inverse
            continue
        G = gref[0].reshape(-1) if gref[0] is not None else torch.zeros(A.numel(), dtype=F64)
        Gt = dict(zip(Tref.keys(), gref[1:]))
        scale = max(1.0, float(G.abs().max()))
        for (mem_eff, max_chol) in configs:
            if max_chol == 0 and name in ("cholesky", "pivoted_cholesky", "to_dense", "matmul", "t_matmul", "sum_rows", "getitem", "diagonal"):
                continue
            # (Lanczos-type roots above max_cholesky_size: judged only when the forward value is exact, i.e. the Krylov space is the whole
            #  space - the forward-value guard below drops truncated roots, whose gradients are not claimed, DESIGN 5/C07 limits)
            if max_chol == 0 and own_probes and name in ("logdet", "inv_quad_logdet"):
                continue      # the stochastic estimate uses probes this harness does not control
            # which tensors require grad: (parameter subset, right-hand sides: all / none / only the first)
            variants = [(subsets[0], "all")] + [(sb, "none") for sb in subsets[1:]] + ([(subsets[0], "first")] if len(tensors) >= 2 else [])
            for si, (subset, tmask) in enumerate(variants):
                if si > 0 and (mem_eff or max_chol == 0) and tmask != "first":
                    continue
                label = "%s[memory_efficient=%s,max_cholesky_size=%s,subset=%d/%d,rhs=%s]" % (name, mem_eff, max_chol, len(subset), len(keys), tmask)
                leafmap = {}
                try:
                    op = bind.build(case["term"], F64, requires_grad=frozenset(subset), leafmap=leafmap)
                    tnames = list(tensors)
                    tgrad = [tk for j, tk in enumerate(tnames) if tmask == "all" or (tmask == "first" and j == 0)]
                    T = {k: v.clone().requires_grad_(k in tgrad) for k, v in tensors.items()}
                    with contextlib.ExitStack() as st, warnings.catch_warnings():
                        warnings.simplefilter("ignore")
                        st.enter_context(S.memory_efficient(mem_eff))
                        st.enter_context(S.max_cholesky_size(max_chol))
                        st.enter_context(S.cg_tolerance(1e-10))
                        st.enter_context(S.minres_tolerance(1e-10))
                        st.enter_context(S.num_contour_quadrature(30))
                        if max_chol == 0:
                            st.enter_context(S.num_trace_samples(n))
                            st.enter_context(S.max_lanczos_quadrature_iterations(n + 2))
                            st.enter_context(S.max_preconditioner_size(0))
                            st.enter_context(ScaledUnitProbes(n))
                        if max_chol == 0 and name in ("root_decomposition", "root_inv_decomposition", "root_inv_then_root") and \
                                _repeated_eigenvalues(bind.build(case["term"], F64)):      # (a separate instance: to_dense is cached on the object)
                            stats["degenerate_spectrum_skipped"] = stats.get("degenerate_spectrum_skipped", 0) + 1
                            continue
                        try:
                            s = flib(op, T)
                        except Exception:  # noqa
                            stats["forward_failed"] = stats.get("forward_failed", 0) + 1      # the forward call is C01-C06's subject
                            continue
                        wrt = [leafmap[k] for k in keys if k in subset] + [T[tk] for tk in tgrad]
                        if not wrt:
                            continue
                        grads = torch.autograd.grad(s, wrt, allow_unused=True) if s.requires_grad else [None] * len(wrt)
                except NotImplementedError:
                    continue
                except Exception as e:  # noqa
                    fails.append((label, "raised", "backward raised " + exc_summary(e)))
                    continue
                if abs(float(s) - float(sref)) > (1e-6 if name != "sqrt_inv_matmul" else 1e-3) * max(1.0, abs(float(sref))):
                    continue      # the forward value itself is off: that is C01-C06's subject, not a gradient statement
                tol = 1e-7 * scale
                if max_chol == 0 or name in ("sqrt_inv_matmul",):
                    tol = 2e-4 * scale
                gi = 0
                for k in keys:
                    if k not in subset:
                        continue
                    g = grads[gi]
                    gi += 1
                    J = jacs[k] * masks[k].unsqueeze(-1)
                    want = J @ G                                      # (leaf numel,)
                    got = torch.zeros_like(want) if g is None else g.reshape(-1).to(F64) * masks[k]
                    if g is not None and list(g.shape) != list(leafmap[k].shape):
                        fails.append((label, "shape", "gradient of leaf %s has shape %s, leaf has %s" % (k, list(g.shape), list(leafmap[k].shape))))
                        continue
                    if symmetric_only:
                        dirs = _sym_directions(J, A.shape)
                        stats["skipped_directions"] += J.shape[0] - sum(len(x) for x in dirs)
                        dv = torch.tensor([float(sum(got[i] for i in dr) - sum(want[i] for i in dr)) for dr in dirs]) if dirs else torch.zeros(0)
                    else:
                        dv = got - want
                    stats["compared"] += 1
                    if dv.numel() and float(dv.abs().max()) > tol:
                        fails.append((label, "leaf:" + owner(k), "gradient of leaf %s (shape %s) differs from <dg/dA, dA/dtheta> by %.3g (max |expected| %.3g)%s"
                                      % (k, list(leafmap[k].shape), float(dv.abs().max()), float(want.abs().max()), " [no gradient delivered]" if g is None else "")))
                if tgrad:
                    for tk in tgrad:
                        g = grads[gi]
                        gi += 1
                        want = Gt[tk] if Gt[tk] is not None else torch.zeros_like(T[tk])
                        got = torch.zeros_like(want) if g is None else g
                        if float((got - want).abs().max()) > tol * max(1.0, float(want.abs().max()) / scale):
                            fails.append((label, "rhs", "gradient of the %s differs from the dense one by %.3g%s"
                                          % ("right-hand side" if tk != "rL" else "left factor", float((got - want).abs().max()), " [no gradient delivered]" if g is None else "")))
    # the hand-written derivative, position by position
    U = _ints(batch + [m, 2], 11) + 0.5
    V = _ints(batch + [n, 2], 12) + 0.5
    Gb = (U @ V.mT).reshape(-1)
    for mem_eff in (False, True):
        label = "_bilinear_derivative[memory_efficient=%s]" % mem_eff
        leafmap = {}
        try:
            op = bind.build(case["term"], F64, requires_grad=True, leafmap=leafmap)
            with S.memory_efficient(mem_eff), warnings.catch_warnings():
                warnings.simplefilter("ignore")
                out = op._bilinear_derivative(U, V)
            rep = op.representation()
        except NotImplementedError:
            continue
        except Exception as e:  # noqa
            fails.append((label, "raised", "raised " + exc_summary(e)))
            continue
        if len(out) != len(rep):
            fails.append((label, "arity", "returned %d gradients for %d representation() tensors" % (len(out), len(rep))))
            continue
        for r, g in zip(rep, out):
            key = next((k for k, t in leafmap.items() if t is r), None)
            if key is None:
                continue
            want = (jacs[key] * masks[key].unsqueeze(-1)) @ Gb
            if g is None:
                if float(want.abs().max()) > 0:
                    fails.append((label, "leaf", "no derivative returned for leaf %s although it is non-zero" % (key,)))
                continue
            if list(g.shape) != list(r.shape):
                fails.append((label, "shape", "derivative for leaf %s has shape %s, leaf has %s" % (key, list(g.shape), list(r.shape))))
                continue
            stats["compared"] += 1
            dv = g.reshape(-1).to(F64) * masks[key] - want
            if float(dv.abs().max()) > 1e-7 * max(1.0, float(Gb.abs().max())):
                fails.append((label, "leaf:" + owner(key), "hand-written derivative for leaf %s differs from <U V^T, dA/dtheta> by %.3g" % (key, float(dv.abs().max()))))
    return fails, stats


def run(tier, seed):
    res = core.Result(PROP, tier, seed)
    r = tlc.run_sharded("MC_C07", "c07." + tier, 8, dict(Tier=tier, Seed=seed, ValSeed=seed), invariants=["InvExactDifference", "InvSymmetricPsd"], timeout=3000)
    if r["violated"]:
        raise core.MachineryError("specification invariant %s violated (central differences not exact?)\n%s" % (r["violated"], r["text"][-1200:]))
    res.add_tlc("MC_C07", r)
    cases = {}
    for b in r["out"]:
        if b["kind"] == "case":
            cases.setdefault(b["id"], dict(leaves=[])).update(b)
        else:
            cases.setdefault(b["id"], dict(leaves=[]))["leaves"].append(b)
    cl = [cases[k] for k in sorted(cases)]
    for c in cl:
        if len(c["leaves"]) != c["nleaves"]:
            raise core.MachineryError("case %s: %d of %d leaves printed" % (c["id"], len(c["leaves"]), c["nleaves"]))
    # canary: a corrupted Jacobian must be rejected
    c0 = copy.deepcopy(next(c for c in cl if c["desc"]["cls"] == "Dense" and c["desc"]["mode"] == "any"))
    c0["leaves"][0]["jac"][0] = [3 * v + 1 for v in c0["leaves"][0]["jac"][0]]
    if not check(c0)[0]:
        raise core.MachineryError("canary: corrupted Jacobian not rejected")
    outs = core.pmap(check, cl, chunksize=1)
    compared = skipped = 0
    for c, (fails, stats) in zip(cl, outs):
        d = c["desc"]
        res.traces += 1
        res.evaluations += stats["compared"]
        compared += stats["compared"]
        skipped += stats["skipped_directions"]
        res.nontrivial.add((d["mode"], d["cls"], tuple(d["b"]), d["depth"]))
        for label, kind, msg in fails:
            fk = core.failure_kind(dict(kind="raised", msg=msg)) if kind == "raised" else kind
            sig = "%s|%s|%s|%s|%s" % (PROP, label.split("[")[0], d["cls"], d["mode"], fk)
            res.violation(sig, "%s batch=%s depth=%d %s: %s" % (c["path"], d["b"], d["depth"], label, msg), dict(case=c))
    res.notes["leaf_gradient_comparisons"] = compared
    res.notes["non_symmetric_directions_skipped"] = skipped
    res.samples = [dict(desc=c["desc"], path=c["path"], leaves=[(lf["path"], lf["ti"], lf["shape"]) for lf in c["leaves"]]) for c in cl[:3]]
    res.rule = ("class (29 general / 18 positive definite) x batch x nesting depth; exact Jacobian of the denotation per leaf entry from TLC; entry points matmul, transpose-matmul, "
                "to_dense, row sums, indexing, diagonal, solve (with left factor), inv_quad, logdet, inv_quad_logdet, cholesky, root / inverse-root decomposition, pivoted_cholesky, "
                "sqrt_inv_matmul, _bilinear_derivative x memory_efficient x max_cholesky_size {default, 0} x subsets of parameters requiring grad; right-hand-side gradients")
    res.exhaustive = tier == "thorough"
    res.assumptions = ["float64 gradients compared at 1e-7 (direct paths) / 2e-4 (CG, quadrature) relative to max|dg/dA|",
                       "gradients of Lanczos-type (truncated) roots are not claimed", "when the forward value itself is wrong (a finding of C01-C06) the gradient is not judged"]
    return res


def replay(rec, path):
    fails, _ = check(rec["case"])
    for f in fails:
        print("  ", f)
    if fails:
        print("VIOLATION property=%s replay=%s" % (PROP, path))
        return 1
    print("now conforms")
    return 0
