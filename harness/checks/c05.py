"""C05 - logdet and inverse quadratic forms equal the dense values or their quadrature (spec/MC_E2.tla, spec/LORational.tla).

Deterministic paths are compared with ln(det) (exact integer determinant from TLC) and the exact rational quadratic form.  On the
stochastic Lanczos-quadrature path torch.randn is replaced so that the probe vectors are the n unit vectors (num_trace_samples = n):
the estimator then has zero variance and must equal ln det exactly (when no preconditioner reshapes the probes).
"""
import copy
import math

import torch

from .. import bind, core, e2
from ..replay import exc_summary

PROP = "C05"


class UnitProbes:
    """torch.randn(k, *batch, n) with k == n returns the n unit vectors (as samples); anything else is genuine noise"""

    def __init__(self, n):
        self.n, self.orig, self.used = n, torch.randn, 0

    def __enter__(self):
        def fake(*size, **kw):
            if len(size) == 1 and not isinstance(size[0], int):
                size = tuple(size[0])
            if len(size) >= 2 and size[0] == self.n and size[-1] == self.n:
                self.used += 1
                z = torch.zeros(*size, dtype=kw.get("dtype") or torch.get_default_dtype())
                for s in range(self.n):
                    z[s, ..., s] = 1.0
                return z
            return self.orig(*size, **kw)

        torch.randn = fake
        return self

    def __exit__(self, *a):
        torch.randn = self.orig


def _replay(beh):
    from linear_operator import settings as S

    d = beh["desc"]
    dtype = bind.DT[d["dt"]]
    fails = []
    unobserved = [0]
    A, _X, logdet, iq = e2.oracles(beh)
    n = A.shape[-1]
    batch = list(A.shape[:-2])
    stochastic = d["logdet_path"] == "stochastic-lanczos-quadrature"
    obs = "?"
    try:
        op = bind.build(beh["term"], dtype)
        B = {k: bind.tensor(v, dtype) for k, v in beh["rhs"].items()}
        tol_d = e2.tolerance(dtype, A, "cholesky") * 10
        if d["cfg"]["max_chol"] == 0:
            # above max_cholesky_size the structured classes use eigen / root decompositions that carry the documented 1e-6 jitter
            tol_d = max(tol_d, 2e-2 if dtype == torch.float32 else 1e-4)
        tol_s = e2.tolerance(dtype, A, "stochastic-lanczos-quadrature")
        # with unit-vector probes and a Lanczos budget >= n the stochastic estimate is the full Gauss quadrature, i.e. exact in exact
        # arithmetic; measured error on the unchanged tree <= 7e-10 (f64) / 1e-6 (f32) over all classes, so the bound is set 3 orders
        # of magnitude above that and far below the effect of losing a single quadrature node
        # (working precision x condition number, as for the direct methods, with that floor)
        tol_l = max(1e-6 if dtype == torch.float64 else 1e-4, e2.tolerance(dtype, A, "cholesky")) if stochastic else tol_d
        # the solve inside inv_quad follows the *solve* selection (CG above max_cholesky_size)
        tol_q = e2.tolerance(dtype, A, d["solve_path"]) * 10 if not stochastic else tol_s
        if beh.get("big") and (stochastic or d["solve_path"].startswith("cg")):
            # more unknowns than the 10 mandatory CG iterations: the quadratic form inherits the configured CG tolerance
            tol_q = max(tol_q, 30 * (e2.CG_TOL_SMALL if d["cfg"]["cg_tol_small"] else 1.0))

        def chk(label, got, ref, tol, shape=None):
            if got is None:
                fails.append((label, "returned None"))
                return
            if shape is not None and list(got.shape) != list(shape):
                fails.append((label, "shape %s != documented %s" % (list(got.shape), list(shape))))
                return
            if not torch.isfinite(got).all():
                fails.append((label, "non-finite result"))
                return
            err = float((got.to(torch.float64) - ref).abs().max()) / max(1.0, float(ref.abs().max()))
            if not err <= tol:
                fails.append((label, "relative error %.3g > %.3g (paths: logdet %s, solve %s)" % (err, tol, d["logdet_path"], d["solve_path"])))

        # exact only when the probes this harness injects are the ones consumed: no preconditioner, and no class that hands the
        # log-determinant to sub-blocks of another size (block / repeat structures draw their own probes per block)
        # (AddedDiagRootConst: the rank-2 pivoted-Cholesky preconditioner reproduces the operator exactly, so the preconditioned
        #  quadrature term vanishes for ANY probes and the result must be log|P| = log|A| exactly)
        exact_probes = stochastic and (d["cls"] == "AddedDiagRootConst" or not d["cfg"]["precond"]) and d["cls"] not in ("BlockDiag", "BlockInter", "BatchRepeat", "Kron", "KronDiag", "KronAddedDiag", "SumKron")
        extra = [S.num_trace_samples(n), S.max_lanczos_quadrature_iterations(n if beh.get("big") else n + 2)] if stochastic else []
        with e2.configuration(dict(d["cfg"], precond_rank=d.get("prank", 0)), extra) as lines, UnitProbes(n) as up:
            calls = []
            calls.append(("op.logdet()", lambda: op.logdet(), logdet, tol_l, batch, True))
            calls.append(("torch.logdet(op)", lambda: torch.logdet(op), logdet, tol_l, batch, True))
            calls.append(("op.inv_quad(R)", lambda: op.inv_quad(B["mat"]), iq["mat"].sum(-1), tol_q, batch, False))
            calls.append(("op.inv_quad(R, reduce_inv_quad=False)", lambda: op.inv_quad(B["mat"], reduce_inv_quad=False), iq["mat"], tol_q, batch + [2], False))
            if not batch:
                calls.append(("op.inv_quad(vector)", lambda: op.inv_quad(B["vec"]), iq["vec"].sum(-1), tol_q, batch, False))
                calls.append(("op.inv_quad_logdet(vector, logdet=True)[0]", lambda: op.inv_quad_logdet(B["vec"], logdet=True)[0], iq["vec"].sum(-1), tol_q, batch, False))
                calls.append(("op.inv_quad_logdet(vector, logdet=True)[1]", lambda: op.inv_quad_logdet(B["vec"], logdet=True)[1], logdet, tol_l, batch, True))
            calls.append(("op.inv_quad_logdet(R, logdet=True)[0]", lambda: op.inv_quad_logdet(B["mat"], logdet=True)[0], iq["mat"].sum(-1), tol_q, batch, False))
            calls.append(("op.inv_quad_logdet(R, logdet=True)[1]", lambda: op.inv_quad_logdet(B["mat"], logdet=True)[1], logdet, tol_l, batch, True))
            calls.append(("op.inv_quad_logdet(R, logdet=True, reduce_inv_quad=False)[0]",
                          lambda: op.inv_quad_logdet(B["mat"], logdet=True, reduce_inv_quad=False)[0], iq["mat"], tol_q, batch + [2], False))
            calls.append(("op.inv_quad_logdet(R, logdet=False)[0]", lambda: op.inv_quad_logdet(B["mat"], logdet=False)[0], iq["mat"].sum(-1), tol_q, batch, False))
            calls.append(("op.inv_quad_logdet(None, logdet=True)[1]", lambda: op.inv_quad_logdet(None, logdet=True)[1], logdet, tol_l, batch, True))
            for label, f, ref, tol, shape, is_logdet in calls:
                used0 = up.used
                try:
                    got = f()
                except Exception as e:  # noqa
                    fails.append((label, "raised " + exc_summary(e)))
                    continue
                engaged = up.used > used0
                if is_logdet and stochastic and exact_probes and not engaged and got is not None and torch.isfinite(got).all() and \
                        float((got.to(torch.float64) - ref).abs().max()) / max(1.0, float(ref.abs().max())) > tol:
                    # the library did not draw its probes through torch.randn(n, ..., n): the zero-variance device cannot observe them, so the
                    # estimate is not judged for value (shape and finiteness only); counted in the evidence
                    unobserved[0] += 1
                    chk(label, got, got.to(torch.float64), 1.0, shape)
                    continue
                if is_logdet and stochastic and not exact_probes:
                    # probes are drawn from the preconditioner: only finiteness and shape are decided here
                    chk(label, got, got.to(torch.float64), 1.0, shape)
                else:
                    chk(label, got, ref, tol, shape)
            obs = e2.observed_path(lines)
    except Exception as e:  # noqa
        fails.append(("setup", "raised " + exc_summary(e)))
    return fails, obs


def run(tier, seed):
    res = core.Result(PROP, tier, seed)
    r, behs = e2.generate(tier, seed, "c05")
    behs = [b for b in behs if b["desc"]["cls"] not in ("Tri", "TriRepeat")]
    res.add_tlc("MC_E2", r)
    b0 = copy.deepcopy(next(b for b in behs if not b.get("big")))
    b0["dets"] = [x * 3 for x in b0["dets"]]
    if not _replay(b0)[0]:
        raise core.MachineryError("canary: corrupted determinant not rejected")
    outs = core.pmap(_replay, behs, chunksize=4)
    paths = {}
    for beh, (fails, obs) in zip(behs, outs):
        d = beh["desc"]
        res.traces += 1
        res.evaluations += 10
        res.nontrivial.add((d["cls"], tuple(d["b"]), d["cfgid"], d["dt"]))
        paths[(d["logdet_path"], obs)] = paths.get((d["logdet_path"], obs), 0) + 1
        for label, msg in fails:
            kind = core.failure_kind(dict(kind="raised" if msg.startswith("raised") else "value", msg=msg))
            cls_tag = d["cls"]
            if d["cfg"]["max_chol"] == 0 and d["cls"].startswith("Kron") and e2.degenerate_factor(beh):
                cls_tag += "[factor-with-repeated-eigenvalue]"
            sig = "%s|%s|%s|%s|%s" % (PROP, label.replace(" ", ""), cls_tag, d["logdet_path"], kind)
            res.violation(sig, "%s batch=%s dt=%s cfg=%s: %s: %s" % (beh["path"], d["b"], d["dt"], d["cfg"], label, msg), dict(behaviour=beh))
    res.notes["paths_predicted_x_observed"] = {"%s / %s" % k: v for k, v in sorted(paths.items())}
    res.samples = [dict(desc=b["desc"], path=b["path"], dets=b.get("dets")) for b in behs[:3]]
    res.rule = ("PD class (21) x batch x {logdet, torch.logdet, inv_quad (reduce on/off, vector), inv_quad_logdet (flags)} x configurations; exact "
                "integer determinants and rational quadratic forms from TLC; the stochastic path made exact by unit-vector probes")
    res.exhaustive = tier == "thorough"
    res.assumptions = ["when a preconditioner draws the probes (precond configurations on the stochastic path) only shape and finiteness of the log-determinant are decided",
                       "tolerances as in C04"]
    return res


def replay(rec, path):
    fails, obs = _replay(rec["behaviour"])
    for f in fails:
        print("  ", f)
    if fails:
        print("VIOLATION property=%s replay=%s" % (PROP, path))
        return 1
    print("now conforms")
    return 0
