"""C09 - Lanczos returns an orthonormal basis and the projected tridiagonal (spec/LOLanczos.tla, MC_C09.tla, Trace_C09.tla).

(1) TLC checks the control layer (number of basis vectors = min(max_iter, n, Krylov dimension) for every n, budget and Krylov dimension;
    slipped variants - among them the pinned tree's missing test of the first coupling coefficient - must be rejected).
(2) lanczos_tridiag is executed for every iteration budget 1..n+2 on matrices with a known eigen-structure (hence known Krylov dimension:
    full, repeated eigenvalues, rank deficient, start vectors spanning few eigenvectors, c*I) in batches and with several start vectors;
    the recorded executions are validated by TLC (Trace_C09): Q^T Q = I, T symmetric tridiagonal, Q^T A Q = T, A Q - Q T supported in the
    last column, exact on the Krylov space at full budget, append-only growth across budgets, no early stop without breakdown.
(3) The consumers (root / inverse root / diagonalization by Lanczos) are judged with the relations of C06 on larger matrices and all budgets.
"""
import json
import math
import os

import torch

from .. import core, tlc
from ..replay import exc_summary
from . import c06, c08

PROP = "C09"
lg = c08.lg
_h = c08._h


def eig_structure(kind, n):
    """eigenvalues (with multiplicities) of the family"""
    if kind == "distinct":
        return [1.0 + 3.0 * i / max(1, n - 1) for i in range(n)]
    if kind == "pairs":           # every eigenvalue twice
        return [1.0 + (i // 2) for i in range(n)]
    if kind == "rankdef":         # a third of the spectrum is zero
        z = max(1, n // 3)
        return [0.0] * z + [1.0 + i for i in range(n - z)]
    if kind == "scalar":          # c * I
        return [2.0] * n
    if kind == "decay":
        return [2.0 ** (-i) for i in range(n)]
    raise KeyError(kind)


def build(sc):
    g = torch.Generator().manual_seed(sc["seed"])
    n, batch, ninit = sc["n"], sc["batch"], sc["ninit"]
    B = int(math.prod(batch)) if batch else 1
    mats, vecs, ds = [], [], []
    for _b in range(B):
        # "mixedrank": a full-rank member next to rank-deficient ones - the iteration continues inside the null space of the latter
        kind = sc["spectrum"] if sc["spectrum"] != "mixedrank" else ("distinct" if _b == 0 else "rankdef")
        if kind == "scalemix":
            # members of very different magnitude: the absolute breakdown threshold (1e-6) is met by the small member from the first step on,
            # which must not stop the others
            lam = torch.tensor(eig_structure("distinct", n), dtype=torch.float64) * (1e-7 if _b == 0 else 1.0)
        else:
            lam = torch.tensor(eig_structure(kind, n), dtype=torch.float64)
        v = torch.randn(n, generator=g, dtype=torch.float64)
        Q = torch.eye(n, dtype=torch.float64) - 2 * torch.outer(v, v) / (v @ v)
        mats.append(Q @ torch.diag(lam) @ Q.T)
        cols = []
        for _i in range(ninit):
            c = torch.randn(n, generator=g, dtype=torch.float64)
            first = _b == 0 and _i == 0
            if sc["start"] == "mixed" and first:
                keep = torch.randperm(n, generator=g)[: max(1, min(2, n - 1))]
                m = torch.zeros(n, dtype=torch.float64)
                m[keep] = 1
                c = c * m
            elif sc["start"] == "mixed":
                pass
            elif sc["start"] == "eigvec":
                c = torch.zeros(n, dtype=torch.float64)
                c[int(torch.randint(0, n, (1,), generator=g))] = 1.0
            elif sc["start"] == "few":
                keep = torch.randperm(n, generator=g)[: max(1, min(3, n - 1))]
                m = torch.zeros(n, dtype=torch.float64)
                m[keep] = 1
                c = c * m
            cols.append(Q @ c)
            ds.append(len({float(lam[i]) for i in range(n) if abs(float(c[i])) > 0}))
        vecs.append(torch.stack(cols, -1))
    A = torch.stack(mats).reshape(*batch, n, n)
    A = (A + A.mT) / 2
    V = torch.stack(vecs).reshape(*batch, n, ninit)
    return A, V, max(ds), min(ds)


def record(sc):
    from linear_operator.utils.lanczos import lanczos_tridiag

    dtype = torch.float32 if sc["dt"] == "f32" else torch.float64
    A64, V64, d, dmin = build(sc)
    A, V = A64.to(dtype), V64.to(dtype)
    A64 = A.to(torch.float64)
    n, batch, ninit = sc["n"], list(sc["batch"]), sc["ninit"]
    B = int(math.prod(batch)) if batch else 1
    normA = float(A64.abs().max()) * n
    runs = []
    prevQ = None
    for m in range(1, n + 3):
        run = dict(m=m, ok=True, r=0, shape_ok=True, finite=True, tsym=True, ortho=-99999, proj=-99999, resid=-99999, last=-99999, prefix=-99999, lastabs=-99999, post=-99999)
        try:
            q, t = lanczos_tridiag(lambda x: A @ x, m, dtype=dtype, device=A.device, matrix_shape=A.shape[-2:], batch_shape=torch.Size(batch),
                                   init_vecs=V.clone(), tol=1e-5)
        except Exception as e:  # noqa
            run["ok"] = False
            run["exc"] = exc_summary(e)
            runs.append(run)
            continue
        r = int(t.shape[-1])
        run["r"] = r
        want_q = ([ninit] if ninit > 1 else []) + batch + [n, r]
        want_t = ([ninit] if ninit > 1 else []) + batch + [r, r]
        run["shape_ok"] = list(q.shape) == want_q and list(t.shape) == want_t and q.dtype == dtype and t.dtype == dtype
        if not run["shape_ok"]:
            run["exc"] = "Q %s T %s, expected %s / %s" % (list(q.shape), list(t.shape), want_q, want_t)
            runs.append(run)
            continue
        Q = q.to(torch.float64).reshape(ninit, B, n, r)
        T = t.to(torch.float64).reshape(ninit, B, r, r)
        run["finite"] = bool(torch.isfinite(Q).all() and torch.isfinite(T).all())
        if run["finite"]:
            off = torch.triu(torch.ones(r, r), 2).bool()
            run["tsym"] = bool(torch.equal(T, T.mT) and not T[..., off].any())
            Ab = A64.reshape(1, B, n, n)
            eye = torch.eye(r, dtype=torch.float64)
            run["ortho"] = lg((Q.mT @ Q - eye).abs().max())
            run["proj"] = lg((Q.mT @ Ab @ Q - T).abs().max() / normA)
            R = Ab @ Q - Q @ T
            run["resid"] = lg(R[..., :-1].abs().max() / normA) if r > 1 else -99999
            run["last"] = lg(R[..., -1].norm(dim=-1).max() / normA)
            run["lastabs"] = lg(R[..., -1].norm(dim=-1).max())
            if prevQ is not None and prevQ.shape[-1] > 0:
                rc = min(r, prevQ.shape[-1])
                run["prefix"] = lg((Q[..., :rc] - prevQ[..., :rc]).abs().max())
            prevQ = Q
            # post-processing of T: eigendecomposition with negative Ritz values masked = the positive part of T
            from linear_operator.utils.lanczos import lanczos_tridiag_to_diag
            ritz, vecs = lanczos_tridiag_to_diag(t.clone())
            ritz = ritz.to(torch.float64).reshape(ninit, B, r)
            vecs = vecs.to(torch.float64).reshape(ninit, B, r, r)
            w, Vt = torch.linalg.eigh(T)
            Tplus = (Vt * w.clamp_min(0).unsqueeze(-2)) @ Vt.mT
            run["post"] = lg(((vecs * ritz.unsqueeze(-2)) @ vecs.mT - Tplus).abs().max() / max(1e-300, float(T.abs().max())))
        runs.append(run)
    return dict(cfg=dict(n=n, d=d, dmin=dmin, f32=dtype == torch.float32, ninit=ninit), runs=runs)


def scenarios(tier, seed):
    sizes = [2, 3, 4, 5, 8, 12, 16, 24, 40, 64]
    spectra = ["distinct", "pairs", "rankdef", "scalar", "decay", "mixedrank", "scalemix"]
    starts = ["random", "mixed", "eigvec", "few"]
    batches = [[], [2], [2, 1]]
    out = []
    N = 120 if tier == "quick" else 900
    for i in range(N):
        h = lambda k: _h(i, k, 11)
        n = sizes[h(1) % (7 if tier == "quick" else len(sizes))]
        sp = spectra[h(2) % len(spectra)]
        dt = "f32" if h(3) % 4 == 0 else "f64"
        if dt == "f32" and sp == "decay":
            sp = "distinct"
        if sp == "decay" and n > 16:
            n = 16
        st, bt, ni = starts[h(4) % 4], batches[h(5) % 3], [1, 1, 3][h(6) % 3]
        if st == "mixed" and not bt and ni == 1:
            ni = 3           # a mixture needs several members or start vectors
        if sp in ("mixedrank", "scalemix") and not bt:
            bt = [2]
        if sp == "scalemix":
            dt = "f64"
        out.append(dict(id=i, seed=seed * 7919 + i, n=n, spectrum=sp, start=st, batch=bt, ninit=ni, dt=dt))
    return out


def _record(sc):
    try:
        return record(sc)
    except Exception as e:  # noqa
        return dict(error="harness: " + exc_summary(e))


def validate(traces, tag):
    path = os.path.join(core.WORK, "traces_c09_%s.json" % tag)
    with open(path, "w") as f:
        json.dump(traces, f)
    r = tlc.run("Trace_C09", "c09.trace." + tag, dict(LzVariant="code"), workers=1, timeout=3000, env=dict(TRACE_FILE=path), heap="8g")
    return r, {v["tid"]: v for v in r["out"]}


def consumers(tier, seed):
    """root / inverse root / diagonalization through Lanczos on larger matrices: C06's relations (results must be the orthogonal compression of
    A, resp. of its inverse, onto the space they span), budgets on both sides of n, including repeated and zero eigenvalues"""
    behs = []
    sizes = [3, 6, 10] if tier == "quick" else [2, 3, 5, 6, 10, 16, 24]
    k = 0
    for n in sizes:
        for sp in ("distinct", "pairs", "decay", "rankdef", "mixedrank"):
            if sp == "decay" and n > 10:
                continue
            for dt in ("f64", "f32"):
                if dt == "f32" and sp == "decay":
                    continue
                sc = dict(seed=seed * 31 + n, n=n, spectrum=sp, start="random", batch=[2] if (n % 2 == 0 or sp == "mixedrank") else [], ninit=1)
                A, _, _, _ = build(sc)
                A = A.to(torch.float32 if dt == "f32" else torch.float64).to(torch.float64)
                for (q, rel) in (("root_decomposition", "RRt"), ("root_inv_decomposition", "RRtInv"), ("diagonalization", "eig"), ("root_after_inv_vecs1", "RRt")):
                    if sp in ("rankdef", "mixedrank") and q in ("root_inv_decomposition", "root_after_inv_vecs1"):
                        continue          # no inverse to compress
                    if q == "root_after_inv_vecs1" and sp != "distinct":
                        continue          # (a single start vector spans the whole space only for distinct eigenvalues: cf. the C12 finding family)
                    for mr in sorted({2, max(1, n // 2), n, n + 2}):
                        k += 1
                        t = dict(shape=list(A.shape), data=[float(x) for x in A.reshape(-1)])
                        behs.append(dict(desc=dict(cls="Dense", b=list(sc["batch"]), query=q, method="lanczos", relation=rel, exact=False, judge_degenerate=True,
                                                   thr=dict(max_chol=0, max_root=mr, fast_root=True), id=k, dt=dt, seed=0, spectrum=sp, n=n),
                                         path="Dense", term=dict(cls="Dense", ops=[], ts=[t], ks=[]), dense=t))
    return behs


def run(tier, seed):
    res = core.Result(PROP, tier, seed)
    r = tlc.run("MC_C09", "c09.mc." + tier, dict(LzVariant="code", NMax=8 if tier == "quick" else 12), invariants=["InvRank", "InvNoCrash", "InvStored"],
                properties=["Termination"], spec="FairSpec", timeout=1800)
    if r["violated"]:
        raise core.MachineryError("control model violates %s" % r["violated"])
    res.add_tlc("MC_C09", r)
    rej = {}
    for v, inv in (("no_first_check", "InvNoCrash"), ("no_trim", "InvRank"), ("late_break", "InvRank")):
        rv = tlc.run("MC_C09", "c09.mc.%s.%s" % (tier, v), dict(LzVariant=v, NMax=7), invariants=["InvRank", "InvNoCrash", "InvStored"], timeout=900)
        rej[v] = rv["violated"]
        if rv["violated"] != inv:
            raise core.MachineryError("slipped control variant %s not rejected by %s (got %s)" % (v, inv, rv["violated"]))
    res.notes["slipped_control_variants_rejected_by"] = rej
    scs = scenarios(tier, seed)
    recs = core.pmap(_record, scs, chunksize=2)
    traces = []
    for sc, t in zip(scs, recs):
        if "error" not in t:
            t["tid"] = sc["id"]
            traces.append(t)
    # canaries are synthetic (a broken library must not be able to take them away): an all-good trace, then one field corrupted each
    good = dict(m=0, ok=True, r=0, shape_ok=True, finite=True, tsym=True, ortho=-50000, proj=-50000, resid=-50000, last=-50000, prefix=-50000, lastabs=-50000, post=-50000)
    base = dict(cfg=dict(n=5, d=5, dmin=5, f32=False, ninit=1), runs=[dict(good, m=m, r=min(m, 5)) for m in range(1, 8)])
    c0 = json.loads(json.dumps(base)); c0["tid"] = 900000
    c1 = json.loads(json.dumps(base)); c1["tid"] = 900001; c1["runs"][2]["ortho"] = -3000
    c2 = json.loads(json.dumps(base)); c2["tid"] = 900002; c2["runs"][3]["r"] = 1; c2["runs"][3]["lastabs"] = 0
    tr, verdicts = validate(traces + [c0, c1, c2], tier)
    res.add_tlc("Trace_C09", tr)
    if verdicts.get(900000, {}).get("fails") != [] or not verdicts.get(900001, {}).get("fails") or not verdicts.get(900002, {}).get("fails"):
        raise core.MachineryError("canary traces: the good one must be accepted and the corrupted ones rejected by Trace_C09")
    drift = 0
    for sc, t in zip(scs, recs):
        if "error" in t:
            res.violation("%s|harness|%s|%s" % (PROP, sc["spectrum"], core.failure_kind(dict(kind="raised", msg=t["error"]))), "scenario %s: %s" % (sc, t["error"]), dict(scenario=sc))
            continue
        res.traces += 1
        res.evaluations += len(t["runs"])
        res.nontrivial.add((sc["n"], sc["spectrum"], sc["start"], tuple(sc["batch"]), sc["ninit"], sc["dt"]))
        v = verdicts.get(sc["id"])
        if v is None:
            raise core.MachineryError("no verdict for trace %d" % sc["id"])
        drift += bool(v["drift"])
        for cl in sorted({f.split("@")[0] for f in v["fails"]}):
            first = next(f for f in v["fails"] if f.split("@")[0] == cl)
            m = int(first.split("@")[1])
            detail = next((rn.get("exc", "") for rn in t["runs"] if rn["m"] == m), "")
            mixed = "d1-among-others" if (t["cfg"]["dmin"] == 1 and t["cfg"]["d"] > 1) else ("mixed" if t["cfg"]["dmin"] != t["cfg"]["d"] else "uniform")
            sig = "%s|%s|%s|%s|%s" % (PROP, cl, sc["spectrum"], mixed if mixed == "d1-among-others" else sc["start"] + "-" + mixed, sc["dt"])
            res.violation(sig, "scenario %s (Krylov dimension %d..%d): clause %s fails at budget %d %s" % (sc, t["cfg"]["dmin"], t["cfg"]["d"], cl, m, detail), dict(scenario=sc))
    res.notes["control_model_drift_traces"] = drift
    # consumers
    behs = consumers(tier, seed)
    outs = core.pmap(c06.check, behs, chunksize=4)
    for beh, (fails, info) in zip(behs, outs):
        d = beh["desc"]
        res.traces += 1
        res.evaluations += 1
        for msg in fails:
            kind = core.failure_kind(dict(kind="raised" if msg.startswith("raised") else "value", msg=msg))
            sig = "%s|consumer:%s|%s-%s|%s" % (PROP, d["query"], d["spectrum"], d["dt"], kind)
            res.violation(sig, "n=%d %s batch=%s %s(method=lanczos) max_root_decomposition_size=%d: %s" % (d["n"], d["spectrum"], d["b"], d["query"], d["thr"]["max_root"], msg),
                          dict(behaviour=beh))
    res.samples = [dict(scenario=s) for s in scs[:3]]
    res.rule = ("eigen-structure family (distinct, repeated pairs, rank deficient, c*I, geometric decay) x start vectors (random, eigenvector, few eigenvectors) x size 2..64 x "
                "batch x 1 or 3 start vectors x dtype; every iteration budget 1..n+2 recorded and validated by TLC; Lanczos consumers on sizes up to 24 with budgets on both sides of n")
    res.exhaustive = False
    res.assumptions = ["norms evaluated in float64 by the recorder, lg-encoded", "thresholds 1e-8 (float64) / 1e-3 (float32) relative to n max|A|"]
    return res


def replay(rec, path):
    if "behaviour" in rec:
        fails, _ = c06.check(rec["behaviour"])
        for f in fails:
            print("  ", f)
        if fails:
            print("VIOLATION property=%s replay=%s" % (PROP, path))
            return 1
        print("now conforms")
        return 0
    sc = rec["scenario"]
    t = _record(sc)
    if "error" in t:
        print("  ", t["error"])
        print("VIOLATION property=%s replay=%s" % (PROP, path))
        return 1
    t["tid"] = sc["id"]
    _, verdicts = validate([t], "replay")
    v = verdicts[sc["id"]]
    if v["fails"]:
        print("  failing clauses:", v["fails"])
        print("VIOLATION property=%s replay=%s" % (PROP, path))
        return 1
    print("now conforms")
    return 0
