"""Run TLC on a module of /verif/spec and collect behaviours + search statistics.

All scratch files live under /verif/.work (git-ignored); nothing is kept in /tmp.
"""
import json
import os
import re
import shutil
import subprocess
import time

VERIF = os.path.dirname(os.path.dirname(os.path.abspath(__file__)))
SPEC = os.path.join(VERIF, "spec")
WORK = os.path.join(VERIF, ".work")
JAR = "/opt/veriftools/tla/tla2tools.jar:/opt/veriftools/tla/CommunityModules-deps.jar"


class TLCError(RuntimeError):
    """Machinery failure (exit code 2), never a verdict."""


def _fmt(v):
    if isinstance(v, bool):
        return "TRUE" if v else "FALSE"
    if isinstance(v, int):
        return str(v)
    if isinstance(v, str):
        return '"%s"' % v
    if isinstance(v, (list, tuple)):
        return "<<" + ", ".join(_fmt(x) for x in v) + ">>"
    if isinstance(v, (set, frozenset)):
        return "{" + ", ".join(_fmt(x) for x in sorted(v)) + "}"
    raise TypeError(v)


def write_cfg(path, spec="Spec", constants=None, invariants=(), properties=(), constraints=(),
              action_constraints=(), postcondition=None, view=None, extra=()):
    lines = ["SPECIFICATION %s" % spec]
    if constants:
        lines.append("CONSTANTS")
        for k, v in constants.items():
            lines.append("  %s = %s" % (k, _fmt(v)))
    for i in invariants:
        lines.append("INVARIANT %s" % i)
    for p in properties:
        lines.append("PROPERTY %s" % p)
    for c in constraints:
        lines.append("CONSTRAINT %s" % c)
    for c in action_constraints:
        lines.append("ACTION_CONSTRAINT %s" % c)
    if postcondition:
        lines.append("POSTCONDITION %s" % postcondition)
    if view:
        lines.append("VIEW %s" % view)
    lines.extend(extra)
    lines.append("CHECK_DEADLOCK FALSE")
    with open(path, "w") as f:
        f.write("\n".join(lines) + "\n")


_STATS = re.compile(r"(\d[\d,]*) states generated, (\d[\d,]*) distinct states found, (\d[\d,]*) states left on queue")
_DEPTH = re.compile(r"The depth of the complete state graph search is (\d+)")


def _num(s):
    return int(s.replace(",", ""))


def run(module, tag, constants=None, invariants=(), properties=(), constraints=(), action_constraints=(),
        postcondition=None, view=None, spec="Spec", workers=16, timeout=1800, simulate=None, depth=None,
        seed=None, env=None, coverage=False, extra_cfg=(), heap=None, expect_violation=False, deque=False):
    """Run TLC. Returns dict(out=[json behaviours], prints=[raw printed values], states, distinct, depth,
    violated (name or None), stdout (text), wall_s)."""
    wd = os.path.join(WORK, tag)
    shutil.rmtree(wd, ignore_errors=True)
    os.makedirs(wd)
    cfg = os.path.join(wd, module + ".cfg")
    write_cfg(cfg, spec=spec, constants=constants, invariants=invariants, properties=properties,
              constraints=constraints, action_constraints=action_constraints, postcondition=postcondition,
              view=view, extra=extra_cfg)
    cmd = ["java", "-XX:+UseParallelGC"]
    if heap:
        cmd.append("-Xmx%s" % heap)
    if deque:
        cmd.append("-Dtlc2.tool.queue.IStateQueue=StateDeque")
    cmd += ["-cp", JAR, "tlc2.TLC", "-workers", str(workers), "-metadir", os.path.join(wd, "meta"),
            "-noGenerateSpecTE", "-config", cfg]
    if coverage:
        cmd += ["-coverage", "1"]
    if simulate:
        cmd += ["-simulate", simulate]
    if depth:
        cmd += ["-depth", str(depth)]
    if seed is not None:
        cmd += ["-seed", str(seed)]
    cmd.append(module)
    e = dict(os.environ)
    if env:
        e.update(env)
    t0 = time.time()
    outp = os.path.join(wd, "tlc.out")
    with open(outp, "w") as fo:
        try:
            p = subprocess.run(cmd, cwd=SPEC, stdout=fo, stderr=subprocess.STDOUT, timeout=timeout, env=e)
            rc = p.returncode
        except subprocess.TimeoutExpired:
            rc = -99
    wall = time.time() - t0
    res = dict(out=[], prints=[], states=0, distinct=0, depth=0, violated=None, wall_s=wall, rc=rc, log=outp,
               coverage_zero=[])
    text_tail = []
    with open(outp) as f:
        for line in f:
            if line.startswith('"{') or line.startswith('"['):
                try:
                    res["out"].append(json.loads(json.loads(line)))
                    continue
                except Exception:
                    raise TLCError("unparsable behaviour line in %s: %s" % (outp, line[:200]))
            if line.startswith("<<") or line.startswith('"'):
                res["prints"].append(line.rstrip("\n"))
                continue
            text_tail.append(line)
            mm = _STATS.search(line)
            if mm:
                res["states"], res["distinct"] = _num(mm.group(1)), _num(mm.group(2))
            mm = _DEPTH.search(line)
            if mm:
                res["depth"] = int(mm.group(1))
            mm = re.search(r"Error: Invariant (\S+) is violated", line)
            if mm:
                res["violated"] = mm.group(1)
            mm = re.search(r"Error: Action property (\S+) is violated|Error: Temporal properties were violated", line)
            if mm:
                res["violated"] = mm.group(1) or "temporal"
    res["text"] = "".join(text_tail[-200:])
    if rc == -99:
        raise TLCError("TLC timed out after %ss on %s (log %s)" % (timeout, module, outp))
    finished = "Model checking completed" in res["text"] or "Finished in" in res["text"]
    if res["violated"] is None and (rc != 0 or not finished) and not simulate:
        raise TLCError("TLC failed on %s rc=%s (log %s):\n%s" % (module, rc, outp, res["text"][-3000:]))
    if res["violated"] and not expect_violation:
        pass  # caller decides: a violated spec invariant on the model is reported by the check
    return res


def run_sharded(module, tag, nparts, constants, **kw):
    """Run `nparts` TLC processes in parallel, each enumerating the cases with id % NParts = Part."""
    from concurrent.futures import ThreadPoolExecutor
    workers = max(1, 16 // nparts)

    def one(p):
        c = dict(constants)
        c["Part"] = p
        c["NParts"] = nparts
        kw.setdefault("heap", "%dm" % max(1024, 28000 // nparts))
        return run(module, "%s.p%d" % (tag, p), constants=c, workers=workers, **kw)

    with ThreadPoolExecutor(nparts) as ex:
        parts = list(ex.map(one, range(nparts)))
    res = dict(out=[], prints=[], states=0, distinct=0, depth=0, violated=None, wall_s=0.0, text="", log=[])
    for r in parts:
        res["out"] += r["out"]
        res["prints"] += r["prints"]
        res["states"] += r["states"]
        res["distinct"] += r["distinct"]
        res["depth"] = max(res["depth"], r["depth"])
        res["violated"] = res["violated"] or r["violated"]
        res["wall_s"] = max(res["wall_s"], r["wall_s"])
        res["log"].append(r["log"])
        if r["violated"]:
            res["text"] += r["text"]
    return res
