"""Spec action -> real API call(s), and the step-by-step executor shared by the denote-replay checks.

Every handler returns a list of (label, observed_value) pairs: several public spellings of the same abstract action
(`op @ X`, `op.matmul(X)`, `torch.matmul(op, X)`) are all compared with the one expectation of the specification.
"""
import math
import warnings

import torch

import linear_operator
from linear_operator.operators import LinearOperator

from . import bind
from .replay import compare_tensor, exc_summary, to_dense_any


class Ctx:
    def __init__(self, beh):
        self.beh = beh
        self.dt = bind.DT[beh["desc"].get("dt", "f64")]
        self.env = {}
        self.leaves = []

    def T(self, j, dtype=None):
        return bind.tensor(j, dtype or self.dt)


ACTIONS = {}


def action(name):
    def deco(f):
        ACTIONS[name] = f
        return f

    return deco


# ------------------------------------------------------------------ C01 actions
@action("construct")
def _construct(ctx, step):
    term = step.get("term") or ctx.beh["term"]
    out = step.get("out", "op")
    op = bind.build(term, ctx.dt, ctx.leaves)
    ctx.env[out] = op
    shp = torch.Size(op.shape)
    obs = [("shape", shp), ("size()", op.size())]
    if isinstance(op, LinearOperator):
        obs += [
            ("batch_shape+matrix_shape", torch.Size(tuple(op.batch_shape) + tuple(op.matrix_shape))),
            ("dim()", ("int", op.dim(), len(shp))),
            ("numel()", ("int", op.numel(), math.prod(shp))),
            ("size(-1),size(-2)", ("int", (op.size(-1), op.size(-2)), (shp[-1], shp[-2]))),
        ]
    return obs


def _op(ctx, step):
    return ctx.env[step.get("in", "op")]


@action("to_dense")
def _to_dense(ctx, step):
    op = _op(ctx, step)
    return [("to_dense()", op.to_dense())]


@action("matmul")
def _matmul(ctx, step):
    op = _op(ctx, step)
    X = ctx.T(step["arg"])
    return [("op @ X", op @ X), ("op.matmul(X)", op.matmul(X)), ("torch.matmul(op, X)", torch.matmul(op, X))]


@action("rmatmul")
def _rmatmul(ctx, step):
    op = _op(ctx, step)
    X = ctx.T(step["arg"])
    return [("X @ op", X @ op), ("op.rmatmul(X)", op.rmatmul(X))]


@action("t_matmul")
def _t_matmul(ctx, step):
    op = _op(ctx, step)
    X = ctx.T(step["arg"])
    return [("op.mT @ X", op.mT @ X), ("op.transpose(-1,-2) @ X", op.transpose(-1, -2).matmul(X))]


@action("t_to_dense")
def _t_to_dense(ctx, step):
    op = _op(ctx, step)
    return [("op.mT.to_dense()", op.mT.to_dense())]


# ------------------------------------------------------------------ executor
def judge(expect, label, got, dtype, loose=1.0, check_dtype=True):
    """-> (message or None, relerr)"""
    if isinstance(got, tuple) and len(got) == 3 and got[0] == "int":
        return (None, 0.0) if got[1] == got[2] else ("%s = %r, expected %r" % (label, got[1], got[2]), math.inf)
    if isinstance(got, torch.Size):
        if list(got) != list(expect["shape"]):
            return "%s = %s, expected %s" % (label, list(got), list(expect["shape"])), math.inf
        return None, 0.0
    if isinstance(got, LinearOperator):
        if list(got.shape) != list(expect["shape"]):
            return "%s: operator shape %s, expected %s" % (label, list(got.shape), list(expect["shape"])), math.inf
        got = got.to_dense()
    msg, err = compare_tensor(expect, got, dtype, loose, check_dtype)
    return (None if msg is None else "%s: %s" % (label, msg)), err


def run_behaviour(beh, loose=1.0, check_dtype=True, allow=None):
    """Execute one behaviour. Returns dict(steps=int, mismatches=[{step, act, msg}], maxerr, raised)"""
    warnings.simplefilter("ignore")
    ctx = Ctx(beh)
    out = dict(steps=0, mismatches=[], maxerr=0.0, obs=0)
    for i, step in enumerate(beh["steps"]):
        act = step["act"]
        expect = step["expect"]
        try:
            pairs = ACTIONS[act](ctx, step)
        except Exception as e:  # noqa
            if isinstance(expect, dict) and expect.get("raises"):
                out["steps"] += 1
                out["obs"] += 1
                continue
            if allow and allow(step, e):
                out["steps"] += 1
                continue
            out["mismatches"].append(dict(step=i, act=act, msg="raised " + exc_summary(e), kind="raised",
                                          exc=type(e).__name__))
            if act == "construct":
                break
            continue
        out["steps"] += 1
        if isinstance(expect, dict) and expect.get("raises"):
            out["mismatches"].append(dict(step=i, act=act, msg="expected an exception, call returned", kind="noraise"))
            continue
        for label, got in pairs:
            out["obs"] += 1
            try:
                msg, err = judge(expect, label, got, ctx.dt, loose, check_dtype)
            except Exception as e:  # densifying the result failed
                msg, err = "%s: densifying the result raised %s" % (label, exc_summary(e)), math.inf
            if msg:
                out["mismatches"].append(dict(step=i, act=act, msg=msg, kind="value", label=label))
                break
            if err != math.inf:
                out["maxerr"] = max(out["maxerr"], err)
    return out
