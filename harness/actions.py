"""Spec action -> real API call(s), and the step-by-step executor shared by the denote-replay checks.

Every handler returns a list of (label, observed_value) pairs: several public spellings of the same abstract action
(`op @ X`, `op.matmul(X)`, `torch.matmul(op, X)`) are all compared with the one expectation of the specification.
"""
import math
import warnings

import torch

import linear_operator
from linear_operator.operators import LinearOperator

from . import bind
from .replay import compare_tensor, exc_summary, to_dense_any


class Ctx:
    def __init__(self, beh):
        self.beh = beh
        self.dt = bind.DT[beh["desc"].get("dt", "f64")]
        self.env = {}
        self.leaves = []
        self.drift = []      # (predicted result class, observed result class) where the rewrite model (LORewrite) and the library differ

    def T(self, j, dtype=None):
        return bind.tensor(j, dtype or self.dt)


ACTIONS = {}


def action(name):
    def deco(f):
        ACTIONS[name] = f
        return f

    return deco


# ------------------------------------------------------------------ C01 actions
@action("construct")
def _construct(ctx, step):
    term = step.get("term") or ctx.beh["term"]
    out = step.get("out", "op")
    op = bind.build(term, ctx.dt, ctx.leaves)
    ctx.env[out] = op
    shp = torch.Size(op.shape)
    obs = [("shape", shp), ("size()", op.size())]
    if isinstance(op, LinearOperator):
        obs += [
            ("batch_shape+matrix_shape", torch.Size(tuple(op.batch_shape) + tuple(op.matrix_shape))),
            ("dim()", ("int", op.dim(), len(shp))),
            ("numel()", ("int", op.numel(), math.prod(shp))),
            ("size(-1),size(-2)", ("int", (op.size(-1), op.size(-2)), (shp[-1], shp[-2]))),
        ]
    return obs


def _op(ctx, step):
    return ctx.env[step.get("in", "op")]


@action("to_dense")
def _to_dense(ctx, step):
    op = _op(ctx, step)
    return [("to_dense()", op.to_dense())]


@action("matmul")
def _matmul(ctx, step):
    if "b" in ctx.env and not step["arg"]:
        a, b = ctx.env["a"], ctx.env["b"]
        return _set_r(ctx, [("a @ b", a @ b), ("a.matmul(b)", a.matmul(b))])
    op = _op(ctx, step)
    X = ctx.T(step["arg"])
    return [("op @ X", op @ X), ("op.matmul(X)", op.matmul(X)), ("torch.matmul(op, X)", torch.matmul(op, X))]


@action("rmatmul")
def _rmatmul(ctx, step):
    op = _op(ctx, step)
    X = ctx.T(step["arg"])
    return [("X @ op", X @ op), ("op.rmatmul(X)", op.rmatmul(X))]


@action("t_matmul")
def _t_matmul(ctx, step):
    op = _op(ctx, step)
    X = ctx.T(step["arg"])
    return [("op.mT @ X", op.mT @ X), ("op.transpose(-1,-2) @ X", op.transpose(-1, -2).matmul(X))]


@action("t_to_dense")
def _t_to_dense(ctx, step):
    op = _op(ctx, step)
    return [("op.mT.to_dense()", op.mT.to_dense())]


# ------------------------------------------------------------------ executor
def judge(expect, label, got, dtype, loose=1.0, check_dtype=True):
    """-> (message or None, relerr)"""
    if isinstance(got, tuple) and len(got) == 3 and got[0] == "int":
        return (None, 0.0) if got[1] == got[2] else ("%s = %r, expected %r" % (label, got[1], got[2]), math.inf)
    if isinstance(got, torch.Size):
        if list(got) != list(expect["shape"]):
            return "%s = %s, expected %s" % (label, list(got), list(expect["shape"])), math.inf
        return None, 0.0
    if isinstance(got, LinearOperator):
        if list(got.shape) != list(expect["shape"]):
            return "%s: operator shape %s, expected %s" % (label, list(got.shape), list(expect["shape"])), math.inf
        got = got.to_dense()
    msg, err = compare_tensor(expect, got, dtype, loose, check_dtype)
    return (None if msg is None else "%s: %s" % (label, msg)), err


def run_behaviour(beh, loose=1.0, check_dtype=True, allow=None, stop_at_first=False):
    """Execute one behaviour. Returns dict(steps=int, mismatches=[{step, act, msg}], maxerr, raised)"""
    warnings.simplefilter("ignore")
    ctx = Ctx(beh)
    out = dict(steps=0, mismatches=[], maxerr=0.0, obs=0, drift=ctx.drift)
    for i, step in enumerate(beh["steps"]):
        act = step["act"]
        expect = step["expect"]
        try:
            pairs = ACTIONS[act](ctx, step)
        except Exception as e:  # noqa
            if isinstance(e, KeyError) and e.args and e.args[0] in ("r", "a", "b", "op") and out["mismatches"]:
                continue  # the step that should have produced this value already failed (reported there)
            if isinstance(expect, dict) and expect.get("raises"):
                out["steps"] += 1
                out["obs"] += 1
                continue
            if allow and allow(step, e):
                out["steps"] += 1
                continue
            out["mismatches"].append(dict(step=i, act=act, msg="raised " + exc_summary(e), kind="raised",
                                          exc=type(e).__name__))
            if act == "construct" or stop_at_first:
                break
            continue
        out["steps"] += 1
        if isinstance(expect, dict) and expect.get("raises"):
            out["mismatches"].append(dict(step=i, act=act, msg="expected an exception, call returned", kind="noraise"))
            continue
        stop = False
        for label, got in pairs:
            out["obs"] += 1
            try:
                msg, err = judge(expect, label, got, ctx.dt, loose, check_dtype)
            except Exception as e:  # densifying the result failed
                msg, err = "%s: densifying the result raised %s" % (label, exc_summary(e)), math.inf
            if msg:
                out["mismatches"].append(dict(step=i, act=act, msg=msg, kind="value", label=label))
                stop = True
                break
            if err != math.inf:
                out["maxerr"] = max(out["maxerr"], err)
        if stop and stop_at_first:
            break  # later steps operate on the wrong value: their failures would only be consequences
    return out


# ------------------------------------------------------------------ C02 actions (algebra)
def _scalar(ctx, spec):
    kind, c = spec["kind"], spec["c"]
    if kind in (1, 2, 3):
        return float(c["data"][0])
    return ctx.T(c)


@action("construct_a")
def _construct_a(ctx, step):
    op = bind.build(step["arg"], ctx.dt, ctx.leaves)
    ctx.env["a"] = op
    return [("a.shape", torch.Size(op.shape))]


@action("construct_b")
def _construct_b(ctx, step):
    op = bind.build(step["arg"], ctx.dt, ctx.leaves)
    ctx.env["b"] = op
    return [("b.shape", torch.Size(op.shape))]


def _set_r(ctx, pairs):
    ctx.env["r"] = pairs[0][1]
    return pairs


SPEC_NAME = dict(DenseLinearOperator="Dense", DiagLinearOperator="Diag", ConstantDiagLinearOperator="ConstDiag", IdentityLinearOperator="Identity",
                 ZeroLinearOperator="Zero", ToeplitzLinearOperator="Toeplitz", TriangularLinearOperator="Tri", CholLinearOperator="Chol",
                 RootLinearOperator="Root", LowRankRootLinearOperator="LowRankRoot", KroneckerProductLinearOperator="Kron",
                 KroneckerProductTriangularLinearOperator="KronTri", KroneckerProductDiagLinearOperator="KronDiag",
                 KroneckerProductAddedDiagLinearOperator="KronAddedDiag", SumKroneckerLinearOperator="SumKron", AddedDiagLinearOperator="AddedDiag",
                 LowRankRootAddedDiagLinearOperator="LRRAddedDiag", SumLinearOperator="Sum", PsdSumLinearOperator="PsdSum",
                 MatmulLinearOperator="Matmul", MulLinearOperator="Mul", ConstantMulLinearOperator="ConstMul", BlockDiagLinearOperator="BlockDiag",
                 BlockInterleavedLinearOperator="BlockInter", SumBatchLinearOperator="SumBatch", BatchRepeatLinearOperator="BatchRepeat",
                 CatLinearOperator="Cat", InterpolatedLinearOperator="Interp", MaskedLinearOperator="Masked", PermutationLinearOperator="Perm",
                 TransposePermutationLinearOperator="TransPerm", KernelLinearOperator="Kernel", UserOp="User")


@action("add")
def _add(ctx, step):
    a, b = ctx.env["a"], ctx.env["b"]
    r = a + b
    pred = step.get("arg")
    if isinstance(pred, list) and pred and isinstance(pred[0], str) and pred[0] != "?":
        # drift of the rewrite-rule model (information only; an expanded operand may legitimately appear as BatchRepeat)
        obs = SPEC_NAME.get(type(r).__name__, type(r).__name__)
        if obs != pred[0] and not (obs == "BatchRepeat" and list(r.shape) != list(a.shape)):
            ctx.drift.append((pred[0], obs))
    return _set_r(ctx, [("a + b", r), ("a.add(b)", a.add(b)), ("torch.add(a, b)", torch.add(a, b))])


@action("sub")
def _sub(ctx, step):
    a, b = ctx.env["a"], ctx.env["b"]
    return _set_r(ctx, [("a - b", a - b), ("a.sub(b)", a.sub(b)), ("a.add(b, alpha=-1)", a.add(b, alpha=-1.0))])


@action("add_t")
def _add_t(ctx, step):
    a, T = ctx.env["a"], ctx.T(step["arg"])
    return _set_r(ctx, [("a + T", a + T), ("a.add(T)", a.add(T))])


@action("radd_t")
def _radd_t(ctx, step):
    a, T = ctx.env["a"], ctx.T(step["arg"])
    return _set_r(ctx, [("T + a", T + a), ("torch.add(T, a)", torch.add(T, a))])


@action("sub_t")
def _sub_t(ctx, step):
    a, T = ctx.env["a"], ctx.T(step["arg"])
    return _set_r(ctx, [("a - T", a - T)])


@action("rsub_t")
def _rsub_t(ctx, step):
    a, T = ctx.env["a"], ctx.T(step["arg"])
    return _set_r(ctx, [("T - a", T - a)])


@action("emul_t")
@action("emul_row")
@action("emul_col")
def _emul_t(ctx, step):
    a, T = ctx.env["a"], ctx.T(step["arg"])
    return _set_r(ctx, [("a * T", a * T), ("T * a", T * a), ("torch.mul(a, T)", torch.mul(a, T))])


@action("mul")
def _mul(ctx, step):
    a, c = ctx.env["a"], _scalar(ctx, step["arg"])
    return _set_r(ctx, [("a * c", a * c), ("a.mul(c)", a.mul(c))])


@action("rmul")
def _rmul(ctx, step):
    a, c = ctx.env["a"], _scalar(ctx, step["arg"])
    return _set_r(ctx, [("c * a", c * a)])


@action("div")
def _div(ctx, step):
    a, c = ctx.env["a"], _scalar(ctx, step["arg"])
    return _set_r(ctx, [("a / c", a / c), ("a.div(c)", a.div(c))])


@action("expand_neg1")
@action("expand_lead")
@action("expand_one")
def _expand(ctx, step):
    a = ctx.env["a"]
    sz = step["arg"]
    return _set_r(ctx, [("a.expand(*sizes)", a.expand(*sz)), ("a.expand(torch.Size)", a.expand(torch.Size(sz)) if all(s >= 0 for s in sz) else a.expand(*sz))])


@action("repeat")
def _repeat(ctx, step):
    return _set_r(ctx, [("a.repeat(*reps)", ctx.env["a"].repeat(*step["arg"]))])


@action("unsqueeze0")
@action("unsqueeze_m3")
def _unsqueeze(ctx, step):
    a = ctx.env["a"]
    return _set_r(ctx, [("a.unsqueeze(d)", a.unsqueeze(step["arg"])), ("torch.unsqueeze(a, d)", torch.unsqueeze(a, step["arg"]))])


@action("squeeze")
def _squeeze(ctx, step):
    a = ctx.env["a"]
    return _set_r(ctx, [("a.squeeze(d)", a.squeeze(step["arg"]))])


@action("permute")
def _permute(ctx, step):
    a = ctx.env["a"]
    return _set_r(ctx, [("a.permute(*dims)", a.permute(*step["arg"])), ("a.permute(neg dims)", a.permute(*[d - a.dim() for d in step["arg"]]))])


@action("transpose_b")
def _transpose_b(ctx, step):
    a = ctx.env["a"]
    d1, d2 = step["arg"]
    return _set_r(ctx, [("a.transpose(d1, d2)", a.transpose(d1, d2)), ("a.transpose(d2, d1)", a.transpose(d2, d1))])


@action("sum_b")
@action("sum_m1")
@action("sum_m2")
def _sum(ctx, step):
    a = ctx.env["a"]
    return _set_r(ctx, [("a.sum(d)", a.sum(step["arg"])), ("torch.sum(a, d)", torch.sum(a, step["arg"]))])


@action("add_diagonal")
def _add_diagonal(ctx, step):
    a = ctx.env["a"]
    return _set_r(ctx, [("a.add_diagonal(d)", a.add_diagonal(ctx.T(step["arg"])))])


@action("add_jitter")
def _add_jitter(ctx, step):
    return _set_r(ctx, [("a.add_jitter(c)", ctx.env["a"].add_jitter(float(step["arg"])))])


@action("mul_op")
def _mul_op(ctx, step):
    a, b = ctx.env["a"], ctx.env["b"]
    return _set_r(ctx, [("a * b", a * b)])


@action("mul_t")
def _mul_t(ctx, step):
    a, T = ctx.env["a"], ctx.T(step["arg"])
    return _set_r(ctx, [("a * T", a * T)])


@action("add_low_rank")
def _add_low_rank(ctx, step):
    return _set_r(ctx, [("a.add_low_rank(V)", ctx.env["a"].add_low_rank(ctx.T(step["arg"])))])


@action("cat_rows")
def _cat_rows(ctx, step):
    a = ctx.env["a"]
    return _set_r(ctx, [("a.cat_rows(cross, new)", a.cat_rows(ctx.T(step["arg"]["cross"]), ctx.T(step["arg"]["new"])))])


@action("prod_b")
def _prod_b(ctx, step):
    a = ctx.env["a"]
    return _set_r(ctx, [("a.prod(d)", a.prod(step["arg"]))])


@action("tail_matmul")
def _tail_matmul(ctx, step):
    return [("r @ X", ctx.env["r"] @ ctx.T(step["arg"]))]


@action("tail_t_matmul")
def _tail_t_matmul(ctx, step):
    return [("r.mT @ X", ctx.env["r"].mT @ ctx.T(step["arg"]))]


@action("tail_add_diagonal")
def _tail_add_diagonal(ctx, step):
    r = ctx.env["r"]
    d = ctx.T(step["arg"])
    if isinstance(r, torch.Tensor):
        return [("r + diag_embed(d)", r + torch.diag_embed(d))]
    return [("r.add_diagonal(d)", r.add_diagonal(d))]


@action("tail_root_gram")
def _tail_root_gram(ctx, step):
    r = ctx.env["r"]
    if isinstance(r, torch.Tensor):
        return []
    R = r.root_decomposition().root
    out = [("root_decomposition().root Gram", R @ R.mT)]
    Ri = r.root_inv_decomposition().root
    out.append(("solve through root_inv_decomposition", torch.linalg.inv((Ri @ Ri.mT).to_dense())))
    return out


@action("tail_repeat")
def _tail_repeat(ctx, step):
    return [("r.repeat(*reps)", ctx.env["r"].repeat(*step["arg"]))]


@action("tail_transpose")
def _tail_transpose(ctx, step):
    return [("r.mT", ctx.env["r"].mT)]


@action("tail_mul")
def _tail_mul(ctx, step):
    return [("r * c", ctx.env["r"] * float(step["arg"]["data"][0]))]


@action("tail_rsub_t")
def _tail_rsub_t(ctx, step):
    return [("T - r", ctx.T(step["arg"]) - ctx.env["r"])]


# ------------------------------------------------------------------ C03 actions (indexing)
def py_index(items):
    out = []
    for it in items:
        k = it["k"]
        if k == "int":
            out.append(int(it["a"]))
        elif k == "sl":
            f = lambda v: None if v == -99 else int(v)
            out.append(slice(f(it["a"]), f(it["b"]), f(it["c"])))
        elif k == "ell":
            out.append(Ellipsis)
        elif k == "ten":
            out.append(torch.tensor(it["t"]["data"], dtype=torch.long).reshape(it["t"]["shape"]))
        elif k == "list":
            out.append([int(v) for v in it["t"]["data"]])
        elif k == "t0":
            out.append(torch.tensor(int(it["a"]), dtype=torch.long))
        else:
            raise KeyError(k)
    return tuple(out)


@action("getitem")
def _getitem(ctx, step):
    op = _op(ctx, step)
    idx = py_index(step["arg"])
    if len(idx) == 1 and step.get("bare", False):
        idx = idx[0]
    return [("op[idx]", op[idx])]


@action("diagonal")
def _diagonal(ctx, step):
    op = _op(ctx, step)
    return [("op.diagonal()", op.diagonal()), ("torch.diagonal(op, dim1=-2, dim2=-1)", torch.diagonal(op, dim1=-2, dim2=-1))]


@action("tail_sum_b")
def _tail_sum_b(ctx, step):
    return [("r.sum(0)", ctx.env["r"].sum(0))]


@action("tail_getitem_b")
def _tail_getitem_b(ctx, step):
    r = ctx.env["r"]
    return [("r[i]", r[int(step["arg"])]), ("r[-1]", r[-1])]
