import sys,collections
prop=sys.argv[1]
rows=[]
for l in open('/verif/.work/proposed_findings_%s.txt'%prop):
    head,_,what=l.partition(' :: ')
    sig=head.split('signature=')[1]
    rows.append((sig.split('|'),what.strip()))
# collapse field 3 (b) then field 2 (a) when >=8 distinct values share all other fields
def collapse(rows, idx, thresh=5):
    groups=collections.defaultdict(list)
    for f,w in rows:
        key=tuple(x for i,x in enumerate(f) if i!=idx)
        groups[key].append((f,w))
    out=[]
    for key,items in groups.items():
        vals={f[idx] for f,_ in items}
        if len(vals)>=thresh:
            f=list(items[0][0]); f[idx]='*'
            out.append((f, "[%d classes] "%len(vals)+items[0][1]))
        else: out+=items
    return out
rows=collapse(rows,3); rows=collapse(rows,2)
for f,w in sorted(rows):
    print("finding: property=%s signature=%s :: %s"%(prop,'|'.join(f),w[:260]))
