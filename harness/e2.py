"""Shared machinery of the exact-linear-algebra replays (C04, C05): behaviours from spec/MC_E2.tla, settings contexts, exact rational oracles."""
import contextlib
import logging

import torch

from . import bind, core, tlc

CG_TOL_SMALL = 1e-3      # the "tight" CG tolerance of the configuration space (the default is 1)


def generate(tier, seed, tag):
    r = tlc.run_sharded("MC_E2", tag + "." + tier, 8, dict(Tier=tier, Seed=seed, ValSeed=seed), invariants=["InvPD"], timeout=3000)
    if r["violated"]:
        raise core.MachineryError("MC_E2: instance family is not positive definite (%s)" % r["violated"])
    behs = sorted(r["out"], key=lambda b: b["desc"]["id"])
    return r, behs


def rational(x):
    """R_Solve record -> float64 tensor"""
    shape = x["shape"]
    n, p = shape[-2], shape[-1]
    nums = torch.tensor(x["nums"], dtype=torch.float64).reshape(-1, n, p)
    dens = torch.tensor(x["dens"], dtype=torch.float64).reshape(-1, 1, 1)
    return (nums / dens).reshape(shape)


class LogCapture(logging.Handler):
    def __init__(self):
        super().__init__()
        self.lines = []

    def emit(self, record):
        self.lines.append(record.getMessage())


@contextlib.contextmanager
def configuration(cfg, extra=()):
    """enter the settings of one configuration record; yields the list of verbose_linalg log lines (path observation, coverage only)"""
    from linear_operator import settings as S

    cap = LogCapture()
    logger = S.verbose_linalg.logger
    old_level = logger.level
    # (the library's own StreamHandler would copy every line to stderr: silenced while the capture is installed)
    old_handlers = list(logger.handlers)
    logger.handlers = [cap]
    logger.setLevel(logging.DEBUG)
    with contextlib.ExitStack() as st:
        st.enter_context(S.max_cholesky_size(cfg["max_chol"]))
        st.enter_context(S.fast_computations(solves=cfg["fast_solves"], log_prob=cfg["fast_log_prob"]))
        st.enter_context(S.cg_tolerance(CG_TOL_SMALL if cfg["cg_tol_small"] else 1.0))
        if cfg["precond"]:
            st.enter_context(S.min_preconditioning_size(0))
            if cfg.get("precond_rank"):
                st.enter_context(S.max_preconditioner_size(cfg["precond_rank"]))
        else:
            st.enter_context(S.max_preconditioner_size(0))
        st.enter_context(S.memory_efficient(cfg["memory_efficient"]))
        st.enter_context(S.verbose_linalg(True))
        for c in extra:
            st.enter_context(c)
        try:
            yield cap.lines
        finally:
            logger.handlers = old_handlers
            logger.setLevel(old_level)


def observed_path(lines):
    s = " ".join(lines)
    tags = []
    if "Running CG" in s:
        tags.append("cg")
    if "Running Cholesky" in s:
        tags.append("cholesky")
    if "Pivoted Cholesky" in s:
        tags.append("pivchol-precond")
    if "Lanczos" in s or "symeig" in s:
        tags.append("eig")
    return "+".join(tags) or "closed-form"


def tolerance(dtype, A, path):
    """relative tolerance of a solve-type answer: working precision x condition number for direct methods; the CG floor otherwise"""
    kappa = min(1e5, float(torch.linalg.cond(A.to(torch.float64)).max()))
    eps = 1.2e-7 if dtype == torch.float32 else 2.2e-16
    direct = 200 * eps * max(1.0, kappa) + (1e-5 if dtype == torch.float32 else 1e-10)
    if path.startswith("cg") or path == "stochastic-lanczos-quadrature":
        return max(direct, 2e-2 if dtype == torch.float32 else 1e-3)
    return direct


def oracles(beh):
    """exact answers: from TLC's rational arithmetic, or (large instances) dense float64 solves of the exact integer system"""
    A = bind.tensor(beh["dense"], torch.float64)
    B = {k: bind.tensor(v, torch.float64) for k, v in beh["rhs"].items()}
    if not beh.get("big"):
        X = {k: rational(v) for k, v in beh["solve"].items()}
        X["vec"] = X["vec"].squeeze(-1)
        batch = list(A.shape[:-2])
        dets = torch.tensor([float(x) for x in beh["dets"]], dtype=torch.float64).reshape(batch)
        iq = {}
        for k in ("mat", "vec"):
            cols = torch.tensor([[c / q["den"] for c in q["cols"]] for q in beh["inv_quad"][k]], dtype=torch.float64)
            iq[k] = cols.reshape(batch + [cols.shape[-1]])
        return A, X, dets.log(), iq
    X = dict(vec=torch.linalg.solve(A, B["vec"].expand(*A.shape[:-1]).unsqueeze(-1)).squeeze(-1) if A.dim() > 2 else torch.linalg.solve(A, B["vec"]),
             mat=torch.linalg.solve(A, B["mat"]), bc=torch.linalg.solve(A, B["bc"]))
    iq = dict(mat=(B["mat"] * X["mat"]).sum(-2), vec=(B["vec"].unsqueeze(-1) * torch.linalg.solve(A, B["vec"].unsqueeze(-1).expand(*A.shape[:-1], 1))).sum(-2))
    return A, X, torch.logdet(A), iq


def degenerate_factor(beh, rel=1e-6):
    """does a square sub-operator of the term (a Kronecker factor, a summand ...) have repeated eigenvalues?  Above max_cholesky_size the
    Kronecker-structured classes diagonalise their factors by Lanczos, which cannot resolve a repeated eigenvalue (the C09 / C12 family of
    findings): such instances are reported under their own class tag so that the finding does not cover the well-separated ones."""
    import torch

    from . import bind

    def walk(t):
        yield t
        for o in t.get("ops", []):
            yield from walk(o)

    for t in list(walk(beh["term"]))[1:]:
        try:
            D = bind.build(t, torch.float64).to_dense()
        except Exception:  # noqa
            continue
        if D.shape[-1] != D.shape[-2] or D.shape[-1] < 2 or float((D - D.mT).abs().max()) > 1e-9:
            continue
        ev = torch.linalg.eigvalsh(D)
        if float((ev[..., 1:] - ev[..., :-1]).abs().min()) <= rel * max(1.0, float(ev.abs().max())):
            return True
    return False
