"""Generates /verif/MANIFEST.json from the table below (python -m harness.manifest)."""
import json
import os

VERIF = os.path.dirname(os.path.dirname(os.path.abspath(__file__)))
BASELINE = "cd /repo && /venv/bin/python -m pytest -ra -q -p no:cacheprovider --timeout=900 --continue-on-collection-errors -n 16 test"

TB = ("TLC 1.8 + CommunityModules Json; the S-layer definitions of spec/LOTensor.tla and spec/LOOperators.tla (written from the "
      "class documentation); the binding layer harness/bind.py + harness/actions.py; IEEE exactness on small integers; "
      "values are sampled by seeded palettes while the structural space is enumerated")

CLAIMED = {
    "C01": dict(
        engine="E1-denote-replay",
        technique="TLA+ term-algebra denotation model checked by TLC; TLC-generated behaviours replayed into the library (conformance)",
        text=("TLC enumerates class x matrix size x batch shape x nesting depth x dtype (spec/MC_C01.tla), checks the "
              "S-layer invariants (structural size = shape of denotation, requested shape, symmetry of PSD families) and "
              "emits one 12-action behaviour per case with the exact expected dense observation of every action; every "
              "behaviour is replayed into the real library and compared after each step (shape attributes, to_dense, "
              "op@X for vector / matrix / batched / broadcast-batched X, X@op, op.mT@X, op.mT.to_dense()). Exhaustive in "
              "structure within the bounds, sampled in values."),
        design="5/C01"),
    "C02": dict(
        engine="E1-denote-replay",
        technique="TLA+ algebra-on-denotations model (LOAlgebra) enumerated by TLC; depth-2 programs replayed into the library step by step",
        text=("TLC enumerates depth-2 expression programs (spec/MC_C02.tla): every ordered pair of the 33 operator classes x {+,-,@} x "
              "batch-shape pairs, class x tensor operand in both orders, class x 8 scalar kinds (python / 0-d / batches of constants incl. mixed sign) x {*, reflected *, /}, class x tensor (full, row, "
              "column) elementwise products, class x 18 unary batch / diagonal operations, PSD class pairs x root-based operations (elementwise "
              "product, add_low_rank, cat_rows, batch prod), each followed by a second operation on the result and, for root-carrying results, "
              "by the Gram matrix of the result's root / inverse root (a repeated repeat for batch results); TLC checks the algebra invariants and logs the exact dense value of every "
              "step; the replay compares shape and value after each step in several public spellings. Result class is ignored; an explicit "
              "not-supported error is accepted only in cells of spec/unsupported_C02.json."),
        design="5/C02"),
    "C03": dict(
        engine="E1-denote-replay",
        technique="TLA+ index-language spec: TLC refinement check of an implementation-shaped __getitem__ model against ideal torch semantics, plus replay of TLC-generated index behaviours",
        text=("(1) spec/LOIndex.tla holds the ideal torch index semantics (S-layer) and transcriptions of __getitem__'s normalisation, "
              "_compute_getitem_size and _is_tensor_index_moved_to_start (M-layer); TLC checks M refines S for every index tuple over 16 "
              "item kinds per position on the listed shapes (this found the `-1 -> slice(-1,0)` and `tensor,int,tensor` defects in the model; "
              "the thorough tier re-checks that the defective model variants are rejected). (2) TLC generates per class x batch shape chunks of "
              "index tuples with exact expected values; each is cross-checked against torch on the dense tensor and replayed into the library "
              "with the debug setting on and off; diagonal() too."),
        design="5/C03"),
    "C20": dict(
        engine="E1-denote-replay",
        technique="TLA+ dense definitions of the utility kernels (LOUtils); TLC-enumerated cases with exact expected values replayed into linear_operator.utils / dsmm",
        text=("spec/LOUtils.tla defines, on exact integer tensors, general and symmetric Toeplitz matrices / products / entry lookup, the Toeplitz "
              "quadratic-form derivative, the interpolation matrix W and the products W x / W^T x, the sparse matrix built from indices and values, "
              "batched sparse-dense products, sparse repetition / conversion, application and inversion of (batched, partial) permutations. "
              "spec/MC_C20.tla enumerates kernel x size 1..4 x batch-shape pairs (including broadcasting against the right-hand side) x {vector, "
              "matrix} rhs x variant with the exact expected result; the replay calls the real kernel in float32 and float64 and compares (QR and "
              "pseudo-inverse relationally; the dsmm gradient against sparse^T @ grad). This found - and the repo now fixes - toeplitz_matmul with a "
              "vector rhs, sparse_repeat of a dimension > 1 and sparse_getitem destroying its input."),
        design="5/C20"),
    "C04": dict(
        engine="E2-exact-linalg-replay",
        technique="TLA+ exact rational oracle (LORational: adjugate/determinant) + method-selection model (LOSelect) enumerated by TLC over class x configuration; replay of solve entry points with path-aware tolerances",
        text=("spec/LORational.tla computes A^{-1}B = adj(A)B/det(A) exactly for integer PD instances (spec/LOGen.tla mode 1; TLC checks symmetry and "
              "positive definiteness of every instance via leading minors). spec/MC_E2.tla enumerates 22 PD classes x batch x rhs kinds x 64 "
              "configurations (max_cholesky_size {0, default}, fast solves, fast log_prob, cg_tolerance, preconditioner on/off, memory_efficient) "
              "and labels each with the selection path of LOSelect (class shortcut / Cholesky / CG / CG+preconditioner); the harness requires every "
              "path to be exercised. Replay: op.solve (vector, matrix, broadcast-batched, with left factor), torch.linalg.solve, "
              "linear_operator.solve under the configuration, compared with the exact answer (200 eps kappa for direct paths, CG floor otherwise); "
              "shape and dtype checked; the algorithm actually taken is read from the verbose_linalg log (coverage only)."),
        design="5/C04"),
    "C05": dict(
        engine="E2-exact-linalg-replay",
        technique="TLA+ exact determinants / rational quadratic forms (LORational) over class x configuration from TLC; replay with the stochastic path made exact by unit-vector probes",
        text=("Same enumeration as C04. TLC supplies the exact integer determinant per batch member and the exact rational diag(R^T A^{-1} R); the "
              "replay checks logdet, torch.logdet, inv_quad (reduced / per column / vector) and inv_quad_logdet (all flag combinations) for value, "
              "documented output shape and finiteness. On the stochastic Lanczos-quadrature path torch.randn is wrapped so that the probes are the n "
              "unit vectors (num_trace_samples = n): the estimator has zero variance and must equal ln det exactly (where the probes are drawn by a "
              "preconditioner or per sub-block only shape / finiteness are decided)."),
        design="5/C05"),
    "C06": dict(engine="E2-exact-linalg-replay", design="5/C06",
                technique="TLA+ enumeration (MC_C06) of class x query x method x thresholds x scale with the algebraic relation each factorization must satisfy against the exact matrix; replay into the library",
                text="Factorization relations against the exact matrix: TLC enumerates PSD class x batch x query (every method argument) x "
                     "thresholds on both sides of n x operator scale and states the relation each result must satisfy (L L^T, R^T R, R R^T, "
                     "R R^T A = I, Q^T Q = I and Q diag(w) Q^T = A, U S V^T); Lanczos-type results must equal the orthogonal compression of A "
                     "onto their own span; truncated pivoted Cholesky must under-approximate."),
    "C07": dict(engine="E2-exact-linalg-replay", design="5/C07",
                technique="TLA+ exact Jacobian of the denotation with respect to every leaf entry (LOGrad: five-point differences, exactness checked by TLC) for class x batch x nesting; replay back-propagates every public entry point through the real operator and compares with <dg/dA, dA/dtheta>",
                text="spec/LOGrad.tla derives dA/d(theta_k) for every entry of every floating leaf tensor from the denotation alone (each entry of A is a polynomial of degree <= 4 in each "
                     "leaf entry, so the five-point central difference is the exact derivative; TLC checks divisibility and the vanishing fifth difference); spec/MC_C07.tla enumerates 29 "
                     "general and 18 positive-definite classes x batch x nesting depth. The replay compares, for matmul, transpose-matmul, to_dense, row sums, indexing, diagonal, solve "
                     "(with left factor), inv_quad, logdet, inv_quad_logdet, cholesky, root / inverse-root decomposition, pivoted_cholesky and sqrt_inv_matmul, the gradient delivered to "
                     "every leaf tensor and to the right-hand sides with the gradient of the same scalar computed on the dense matrix contracted with the exact Jacobian (along symmetric "
                     "directions for functions of symmetric matrices), for memory_efficient on / off, max_cholesky_size {default, 0}, subsets of parameters and of right-hand sides "
                     "requiring grad; _bilinear_derivative is compared position by position with representation()."),
    "C08": dict(engine="E4-loop-models-trace-validation", design="5/C08",
                technique="TLA+ state machine of the CG loop control (LOCG) model-checked exhaustively by TLC; executions recorded from linear_cg (budget re-runs) validated by TLC against the property clauses of LOCG (Trace_C08)",
                text="(1) spec/LOCG.tla models the control of linear_cg (limits, mandatory iterations, tridiagonal budget, tolerance exit, warning, raise) over abstract "
                     "per-iteration observations; spec/MC_C08.tla lets TLC choose every configuration and observation sequence and checks the control invariants; three "
                     "slipped variants must be rejected. (2) For seeded scenarios (spectrum family x condition number up to 1e6 x size 1..64 x batch x zero / tiny / huge "
                     "columns x initial guess x preconditioner x tolerance x limits x tridiagonal requests x dtype x eps) the real linear_cg is executed with every iteration "
                     "budget 1..K, rescaled right-hand sides and tight limits; the recorded traces (lg-encoded A-norm errors, residuals, change flags, warnings, tridiagonal "
                     "facts) are validated by TLC (spec/Trace_C08.tla): error never increases, classical bound with the exact condition number, no warning implies residual "
                     "below tolerance, frozen and zero columns, linear scaling, preconditioner-independent limit, T symmetric tridiagonal with Ritz values in the spectrum, "
                     "Gauss quadrature identity at full dimension, agreement with independently computed Lanczos coefficients, raise on NaN / inconsistent limits. Sampled "
                     "in inputs (seeded drivers), exhaustive in the control model."),
    "C09": dict(engine="E4-loop-models-trace-validation", design="5/C09",
                technique="TLA+ control model of the Lanczos loop (LOLanczos) checked by TLC for every size / budget / Krylov dimension; executions of lanczos_tridiag for every budget 1..n+2 recorded and validated by TLC against the clauses of C09 (Trace_C09); Lanczos consumers judged with the compression relations",
                text="(1) spec/LOLanczos.tla + MC_C09.tla: the loop (budget min(max_iter, n), first-step and in-loop breakdown tests, trimming) must end with exactly "
                     "min(max_iter, n, Krylov dimension) basis vectors for every configuration, and terminate; slipped variants (among them the pinned tree's missing test of "
                     "the first coupling coefficient, which crashes for a budget of one) must be rejected. (2) Matrices with known eigen-structure (distinct, repeated pairs, rank "
                     "deficient, c*I, geometric decay, batches mixing full-rank and rank-deficient members) x start vectors (random, eigenvector, few eigenvectors, mixtures) x "
                     "sizes 2..64 x batch x 1 or 3 start vectors x dtype: every budget 1..n+2 is executed, measured in float64 and validated by TLC (spec/Trace_C09.tla): shapes, "
                     "finiteness, Q^T Q = I, T symmetric tridiagonal, Q^T A Q = T, A Q - Q T supported in the last column, exactness on the Krylov space, append-only growth of "
                     "the basis across budgets, no early stop without breakdown evidence, eigendecomposition of T with masked negative Ritz values. (3) root / inverse root / "
                     "diagonalization by Lanczos on sizes up to 24 with budgets on both sides of n must equal the orthogonal compression of A (A^-1) onto their span."),
    "C10": dict(engine="E4-loop-models-trace-validation", design="5/C10",
                technique="TLA+ state machine of pivoted Cholesky in exact rational arithmetic (LOPivChol) explored exhaustively by TLC incl. all tie-breaking; library results accepted only as one of the specification's behaviours; preconditioner compared with (A - S) + D",
                text="spec/LOPivChol.tla runs the loop of functions/_pivoted_cholesky.py on exact rationals (state: residual S = A - L L^T per batch member, pivots, step counter, "
                     "lockstep exit rule); TLC checks in every state that S is PSD, vanishes on pivot rows / columns, pivots are greedy, the trace never increases, the "
                     "factorization is exact at full rank and the loop leaves early only below the relative tolerance; three slipped variants must be rejected. spec/MC_C10.tla "
                     "enumerates 18 instance families x rank bound 1..n+1 x tolerances (default, loose, tight and placed strictly between consecutive residual traces) x scale x "
                     "diagonal part; every terminal state (pivots, steps, exact A - S) is printed and the library's (L, permutation) must be one of them in float32 / float64; "
                     "for K + D the preconditioner's closure, operator and log-determinant must be those of (A - S) + D, and None below min_preconditioning_size."),
    "C11": dict(engine="E4-loop-models-trace-validation", design="5/C11",
                technique="TLA+ shape algebra and loop-control model of multi-shift MINRES (LOMinres) checked by TLC; TLC-enumerated shape cases replayed; executions of minres / contour_integral_quad / sqrt_inv_matmul recorded and validated by TLC against the clauses of C11 (Trace_C11)",
                text="(1) spec/LOMinres.tla + MC_C11.tla: documented output shape of minres for every operator batch x right-hand side x shift tensor (leading shift dimension "
                     "exactly when several shifts are given), and the loop control (at most min(max_iter, n + 1) + 2 iterations, convergence tests only every 10th iteration) over all "
                     "observation sequences; three slipped variants must be rejected. (2) Every shape case plus seeded drivers (spectrum family, kappa <= 1e4, size 1..40, batches, "
                     "preconditioners incl. rescaled ones, tolerances, zero columns, negative shifts, float32 / float64) are executed: budgets 1..n+1 give the iterates, then the "
                     "configured call, a power-of-two rescaled call and the tight full-budget call; contour_integral_quad and sqrt_inv_matmul (with left factor) run on Dense / AddedDiag "
                     "with and without an active pivoted-Cholesky preconditioner / Diag / ConstantDiag / Identity. TLC validates the recorded measurements (spec/Trace_C11.tla): shape, "
                     "finiteness, zero columns, exact linear scaling, error within the stopping tolerance, residual never increasing with the budget, exactness at full budget, weighted "
                     "solves = K^-1/2 b and K^1/2 b, M M^T = K^-1 for the quadrature map, sqrt_inv_matmul twice = solve, left-factor outputs."),
    "C12": dict(
        engine="E3-history-machines",
        technique="TLA+ model of per-object memoize caches over query/derivation/settings histories (key discipline from the live classes), exhaustive TLC histories replayed with per-step cache-validity checks",
        text=("spec/LOCache.tla: objects (a base operator and operators derived from it) with exact dense denotations and a model of their "
              "memoize caches; alphabet of 19 queries (incl. the probe-vector Lanczos inverse root), 8 derivations, 2 settings toggles and return-to-parent, plus the derived-then-parent family of five-step histories emitted directly (FamilyStep). The table of which cached methods "
              "honour their arguments is extracted from the live class and passed to TLC, which checks CacheOwned / CacheValid / DenStable over "
              "all histories to the depth bound (an argument-ignoring Cholesky cache is rejected - non-vacuity) and prints every history with the "
              "exact matrix of every object. The replay runs each history on one real object (12 PD instance classes), judges every answer "
              "relationally against the exact matrix (= what a fresh copy satisfies), and after every step validates every _memoize_cache entry of "
              "every live object against the matrix of the object holding it."),
        design="5/C12", note="TLC 1.8; relation checks in float64 against exact integer matrices; Lanczos-valued roots / diagonalizations under max_cholesky_size(0) are judged by the compression relation of C06/C09, stochastic log-determinants are executed only"),
    "C13": dict(
        engine="E3-history-machines",
        technique="TLA+ alias/ownership model of the solvers' buffer handling checked by TLC for every argument layout; TLC-enumerated call cases executed with a version+bits monitor on every caller tensor",
        text=("spec/LOFrame.tla: cells with ownership; tensor primitives with layout-dependent aliasing (view ops alias, .contiguous() aliases "
              "iff already contiguous, clone / out-of-place ops are fresh, trailing-underscore ops write). The buffer handling of linear_cg, "
              "psd_safe_cholesky, pivoted Cholesky and Lanczos is transcribed as straight-line programs; TLC runs them for every layout of every "
              "caller argument and checks NoCallerWrite; four variants without a defensive copy are rejected. spec/MC_C13.tla enumerates "
              "operation x argument role x layout {contiguous, expanded stride-0, transposed view, slice of a larger storage} x 23 operator "
              "classes (incl. identity-diagonal composites and constant multiples of identities, whose products alias their argument) x batch x {direct, CG path} and 18 utility "
              "kernels; each case is executed and every caller cell (argument base storages, every tensor defining the operator) is compared "
              "by _version and bits; the operator must still densify to the same matrix."),
        design="5/C13", note="TLC 1.8; torch's _version counter; harness/checks/c13.py argument builders"),
    "C14": dict(
        engine="E1-denote-replay",
        technique="TLA+ attribute-record model (leaf kinds, non-tensor structure, dtype) of copy / conversion / rebuild actions; TLC-enumerated cases replayed with structural, dtype, storage and value checks",
        text=("spec/MC_C14.tla: an operator value is (term, dtype of its floating data); the attribute record lists the kind of every tensor leaf "
              "(floating / integer / boolean) and the non-tensor arguments along the tree. clone, detach, to, type, double, float, cpu, "
              "evaluate_kernel, the representation-tree round trip and requires_grad_ are the identity on structure and denotation and map the "
              "dtype of exactly the floating leaves. TLC enumerates 34 classes x batch x (source, target, torch default) dtype x 11 actions and logs "
              "the expected record plus the exact dense matrix; the replay checks class tree and non-tensor arguments, operator / leaf dtypes, "
              "that integer and boolean leaves keep their dtype, storage disjointness of clones, requires_grad reach, the dense value, and "
              "(action 'outputs') that every returned tensor has the operator's dtype when torch's default dtype differs."),
        design="5/C14"),
    "C15": dict(
        engine="E1-denote-replay",
        technique="TLA+ dispatch table (torch function -> abstract action) checked against the live registration tables by TLC; TLC-enumerated calls replayed in both operand orders",
        text=("spec/MC_C15.tla holds the dispatch table of the specification (27 first-argument entries, 9 second-argument entries); the live "
              "_HANDLED_FUNCTIONS / _HANDLED_SECOND_ARG_FUNCTIONS tables are extracted at check time and TLC checks TableComplete (nothing the "
              "property lists has been unregistered) and TableKnown (no live entry unknown to the spec - coverage gap, exit 2). TLC enumerates "
              "entry x 33 classes x batch x operand kind with the exact expected dense result (LOAlgebra); the replay calls torch.f(op, ...), "
              "torch.f(tensor, op), tensor <binop> op and the method and compares each (factorizations / solves relationally against the exact "
              "matrix); 7 unregistered torch functions must raise NotImplementedError; a NotImplementedError from torch.f is accepted only when "
              "the method itself declares the operation unsupported."),
        design="5/C15"),
    "C16": dict(
        engine="E3-history-machines",
        technique="TLA+ retry-loop state machine (ideal per-member minimal jitter vs implementation-shaped loop) model checked by TLC; terminal behaviours replayed, cholesky_ex attempts trace-validated",
        text=("spec/LOPsdChol.tla: batch members are exact integer matrices (PD, singular, indefinite at three depths, hopeless, NaN; 2x2 and "
              "3x3) so that success of Cholesky under integer jitter is decided exactly. TLC checks for every batch of up to 3 members x "
              "max_tries x upper that the implementation-shaped loop (one cholesky_ex attempt per action, difference jitter, info mask) "
              "refines the ideal semantics (RefinesOutcome, RefinesJitter, NoBadFactor, MonotoneJitter, WarnIffJitter) and that four "
              "realistic slips (frozen mask, full jitter re-added, all members jittered, extra try) are rejected. Every terminal behaviour "
              "is replayed into psd_safe_cholesky (float32/64; explicit args, settings, out=, DenseLinearOperator.cholesky) checking the "
              "factor of exactly A + j_b I, triangularity/orientation, exception types, warnings, input immutability; the recorded "
              "cholesky_ex attempts must satisfy the per-member trace conditions."),
        design="5/C16", note="TLC 1.8; exactness of IEEE Cholesky pivots' signs on the integer members; harness/checks/c16.py"),
    "C18": dict(engine="E2-exact-linalg-replay", design="5/C18",
                technique="TLA+ enumeration (MC_C06, relation cov) of sampler x class x batch x thresholds; the sampler's exact Jacobian is recovered by replacing torch.randn with one-hot noise and compared with the exact covariance",
                text="Sampling made deterministic: torch.randn is replaced by one-hot noise, which recovers the sampler's linear map J exactly; "
                     "J J^T must equal the exact covariance per batch member, and cross-sample / cross-batch blocks must vanish; shapes as "
                     "documented; contour-integral-quadrature sampler included."),
    "C19": dict(
        engine="E1-denote-replay",
        technique="TLA+ validity predicates (matmul / broadcast / expand / index range) enumerate every invalid operand for every class; expectation 'raises' replayed, spec verdict cross-checked against torch",
        text=("spec/MC_C19.tla: for each of the 33 operator classes (4x4 and, where allowed, 2x3 instances, with and without a batch dimension) "
              "TLC enumerates every second-operand shape of rank <= 3 over sizes 1..5 and every index value that the specification's validity "
              "predicates reject - wrong or size-1 inner dimension, non-broadcastable batch, non-expandable target, index >= size or < -size, "
              "square-only operations on rectangular operators - for matmul, rmatmul, +, elementwise *, solve, inv_quad, add_diagonal, "
              "expand, concatenation, integer / tensor indexing (about 22k invalid calls). Each call is first made on the dense tensor (torch "
              "must reject it too, else machinery error) and then on the real operator with debug on/off: it must raise."),
        design="5/C19"),
    "C17": dict(
        engine="E3-history-machines",
        technique="TLA+ state machine of settings contexts (ideal scoped semantics + implementation-shaped model), TLC refinement check, all histories replayed into linear_operator.settings",
        text=("spec/LOSettings.tla models 8 context classes (flags, scalar values, the per-dtype value class with an unset slot, the two "
              "composites, the cache-owning flag) with construct / enter / exit / exit-by-exception events. TLC checks that the "
              "implementation-shaped model refines the ideal scoped semantics (Refines, RestoreOnExit, NoCrossLeak, "
              "DefaultsAtQuiescence, SnapDiscipline) exhaustively to the depth bound, then emits every history with the expected value of "
              "every slot after every event; each history is replayed into the real settings module under rotating bindings to the 12 flag / "
              "16 value classes, compared after each event, unwound and checked for defaults. The model of the pinned tree is rejected by "
              "TLC in 5 steps (thorough tier re-checks this), which is how the two leaks were found and repaired."),
        design="5/C17", note="TLC 1.8; the binding of abstract slots to real classes in harness/checks/c17.py; LIFO nesting of with-blocks"),
}

NOT_YET = {}


def main():
    props = [json.loads(l) for l in open(os.path.join(VERIF, "properties.jsonl"))]
    checks = []
    na = []
    for p in props:
        pid = p["id"]
        if pid in CLAIMED:
            c = CLAIMED[pid]
            checks.append(dict(
                property_id=pid,
                quick_cmd="./check %s --tier quick" % pid,
                thorough_cmd="./check %s --tier thorough" % pid,
                evidence_file="/verif/evidence/%s.json" % pid,
                replay_cmd_template="./check replay {path}",
                engine=c["engine"],
                level_claimed=dict(category="model_checking", text=c["text"], design_ref=c["design"]),
                level_note=c.get("note", TB),
                technique=c["technique"],
            ))
        else:
            na.append(dict(property_id=pid, reason=NOT_YET.get(pid, "check not built yet in this round (planned, see DESIGN.md section 5); not claimed until its machinery exists")))
    man = dict(
        version=1,
        setup_cmd="cd /verif && ./setup.sh",
        hooks=dict(guard="LINEAR_OPERATOR_VERIF", enable="none needed: all observation points are reached by run-time wrapping; checks import /repo's working tree directly",
                   baseline_off_cmd=BASELINE, source_commits=[], add_only=True),
        engines=[
            dict(name="E3-history-machines", path="spec/LOSettings.tla spec/LOCache.tla spec/LOPsdChol.tla harness/checks/",
                 serves_properties=sorted(k for k, v in CLAIMED.items() if v["engine"] == "E3-history-machines"),
                 kind_free_text="TLA+ state machines over event histories (ideal + implementation-shaped layers), exhaustive TLC exploration, histories replayed into / traces validated from the library"),
            dict(name="E4-loop-models-trace-validation", path="spec/LOCG.tla spec/MC_C08.tla spec/Trace_C08.tla spec/LOLanczos.tla spec/MC_C09.tla spec/Trace_C09.tla spec/LOPivChol.tla spec/MC_C10.tla spec/LOMinres.tla spec/MC_C11.tla spec/Trace_C11.tla harness/checks/",
                 serves_properties=sorted(k for k, v in CLAIMED.items() if v["engine"] == "E4-loop-models-trace-validation"),
                 kind_free_text="TLA+ state machines of the iterative solvers; exhaustive TLC exploration of the models; traces recorded from the real solvers validated by TLC / results accepted only as model behaviours"),
            dict(name="E2-exact-linalg-replay", path="spec/LORational.tla spec/MC_E2.tla harness/e2.py",
                 serves_properties=sorted(k for k, v in CLAIMED.items() if v["engine"] == "E2-exact-linalg-replay"),
                 kind_free_text="exact rational linear algebra in TLA+ as oracle for solve / logdet / quadratic forms across configurations"),
            dict(name="E1-denote-replay", path="spec/LOTensor.tla spec/LOOperators.tla spec/LOGen.tla spec/MC_*.tla harness/",
                 serves_properties=sorted(k for k, v in CLAIMED.items() if v["engine"] == "E1-denote-replay"),
                 kind_free_text="TLA+ denotational specification; TLC enumerates behaviours with exact expected observations; Python replays them into the library"),
        ],
        checks=checks,
        not_applicable=na,
        notes="Known findings: /verif/known_findings.txt. Scratch: /verif/.work (git-ignored). VERIF_SEED seeds value palettes.",
    )
    with open(os.path.join(VERIF, "MANIFEST.json"), "w") as f:
        json.dump(man, f, indent=1)
    print("claimed:", [c["property_id"] for c in checks])


if __name__ == "__main__":
    main()
