import argparse
import importlib
import json
import os
import sys
import traceback
import warnings

warnings.simplefilter("ignore")
sys.path.insert(0, "/repo")  # the current working tree of the library


def main():
    ap = argparse.ArgumentParser()
    ap.add_argument("prop")
    ap.add_argument("path", nargs="?")
    ap.add_argument("--tier", default=os.environ.get("VERIF_TIER", "quick"))
    a = ap.parse_args()
    seed = int(os.environ.get("VERIF_SEED", "0"))
    import torch

    torch.set_num_threads(1)
    from . import core

    if a.prop == "replay":
        from . import replay_cmd

        sys.exit(replay_cmd.main(a.path))
    mod = importlib.import_module("harness.checks." + a.prop.lower())
    try:
        res = mod.run(a.tier, seed)
        rc = res.finish()
    except core.MachineryError as e:
        print("MACHINERY-ERROR %s: %s" % (a.prop, e))
        sys.exit(2)
    except Exception:
        traceback.print_exc()
        print("MACHINERY-ERROR %s: unexpected exception in the harness" % a.prop)
        sys.exit(2)
    sys.exit(rc)


if __name__ == "__main__":
    main()
