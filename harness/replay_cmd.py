"""./check replay <file>: re-execute a recorded violating behaviour / trace against the current tree."""
import json
import sys


def main(path):
    rec = json.load(open(path))
    prop = rec.get("property")
    print("property:", prop)
    print("signature:", rec.get("signature"))
    print("recorded:", rec.get("msg"))
    # same global RNG state as in the run that recorded it (core._seeded_call seeds from the item's content)
    item = next((rec[k] for k in ("behaviour", "history", "case", "scenario", "group", "beh") if k in rec), None)
    if item is not None:
        import os
        import zlib

        import torch

        torch.manual_seed(1000003 * (int(rec.get("seed", os.environ.get("VERIF_SEED", "0"))) + 1)
                          + zlib.crc32(json.dumps(item, sort_keys=True, default=str).encode()))
    if "behaviour" in rec:
        from .actions import run_behaviour

        out = run_behaviour(rec["behaviour"], **rec.get("opts", {}))
        for m in out["mismatches"]:
            print("  step %d (%s): %s" % (m["step"], m["act"], m["msg"]))
        if out["mismatches"]:
            print("VIOLATION property=%s replay=%s" % (prop, path))
            return 1
        print("behaviour now conforms (%d steps)" % out["steps"])
        return 0
    import importlib

    mod = importlib.import_module("harness.checks." + prop.lower())
    if hasattr(mod, "replay"):
        return mod.replay(rec, path)
    print("no replay handler for this record")
    return 2
