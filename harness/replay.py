"""Replay of TLC-generated behaviours into the real library, comparing the abstract observation after every step.

A behaviour is {"chk", "desc", "term" | "terms", "steps": [{"act", "arg", "expect"}, ...]}.
`expect` is a spec tensor {"shape","data"[,"den"]}, {"shape"} only, {"raises": true}, or a scalar.
"""
import hashlib
import json
import math
import os
import traceback
import warnings

import torch

from . import bind

VERIF = os.path.dirname(os.path.dirname(os.path.abspath(__file__)))
WORK = os.path.join(VERIF, ".work")


def _init_worker():
    torch.set_num_threads(1)
    warnings.simplefilter("ignore")


def tol_for(dtype, scale, loose=1.0):
    """Absolute tolerance for an exact-integer expectation. A structural error changes an entry by >= 1 on the
    integer instance families; rounding of float32/float64 kernels (FFT Toeplitz products, root-based products)
    stays orders of magnitude below (DESIGN 3.7)."""
    if dtype == torch.float32:
        return loose * 2e-4 * max(1.0, scale)
    return loose * 1e-8 * max(1.0, scale)


def to_dense_any(x):
    if isinstance(x, torch.Tensor):
        return x
    return x.to_dense()


def compare_tensor(expect, got, dtype, loose=1.0, check_dtype=True):
    """Returns (None, err) when equal, (message, err) otherwise."""
    if not isinstance(got, torch.Tensor):
        return "expected a tensor, got %s" % type(got).__name__, math.inf
    if list(got.shape) != list(expect["shape"]):
        return "shape %s != expected %s" % (list(got.shape), list(expect["shape"])), math.inf
    if "data" not in expect:
        return None, 0.0
    if check_dtype and got.dtype != dtype:
        return "dtype %s != operator dtype %s" % (got.dtype, dtype), math.inf
    e = bind.tensor(expect, torch.float64)
    g = got.detach().to(torch.float64)
    if not torch.isfinite(g).all():
        return "non-finite entries in result", math.inf
    scale = float(e.abs().max()) if e.numel() else 1.0
    err = float((g - e).abs().max()) if e.numel() else 0.0
    tol = tol_for(dtype, scale, loose)
    if err > tol:
        idx = int((g - e).abs().reshape(-1).argmax())
        return "value mismatch: max |got-expected| = %.6g > tol %.3g (scale %.3g) at flat index %d: got %.6g expected %.6g" % (
            err, tol, scale, idx, float(g.reshape(-1)[idx]), float(e.reshape(-1)[idx])), err
    return None, err / max(1.0, scale)


class Mismatch(Exception):
    def __init__(self, msg):
        super().__init__(msg)


def save_replay(prop, record):
    d = os.path.join(WORK, "replays", prop)
    os.makedirs(d, exist_ok=True)
    blob = json.dumps(record, sort_keys=True, default=str)
    h = hashlib.sha1(blob.encode()).hexdigest()[:16]
    p = os.path.join(d, h + ".json")
    with open(p, "w") as f:
        f.write(blob)
    return p


def exc_summary(e):
    tb = traceback.extract_tb(e.__traceback__)
    frames = [f for f in tb if "/linear_operator/" in f.filename]
    where = ""
    if frames:
        f = frames[-1]
        where = " at %s:%s (%s)" % (f.filename.split("/linear_operator/")[-1], f.lineno, f.name)
    return "%s: %s%s" % (type(e).__name__, str(e).split("\n")[0][:200], where)
