"""Common machinery of all checks: result accumulation, known findings, evidence files, exit codes.

Exit codes: 0 property held on everything explored; 1 violation (a line `VIOLATION property=<id> replay=<path>`
is printed for each distinct signature); 2 machinery failure (never a verdict).
"""
import json
import multiprocessing as mp
import os
import subprocess
import sys
import time

VERIF = os.path.dirname(os.path.dirname(os.path.abspath(__file__)))
WORK = os.path.join(VERIF, ".work")
FINDINGS = os.path.join(VERIF, "known_findings.txt")


class MachineryError(RuntimeError):
    pass


def load_findings():
    """known_findings.txt lines:
         finding: property=<id> signature=<sig> :: <what fails>
         fixed: property=<id> <commit> <what failed>          (suppresses nothing)
    """
    open_f = []
    if os.path.exists(FINDINGS):
        for line in open(FINDINGS):
            line = line.strip()
            if line.startswith("finding:"):
                head, _, what = line[len("finding:"):].partition("::")
                kv = dict(p.split("=", 1) for p in head.split() if "=" in p)
                open_f.append(dict(property=kv["property"], signature=kv["signature"], what=what.strip()))
    return open_f


def _sig_match(pattern, sig):
    """exact match, or field-wise match where a pattern field `*` matches any value of that field (used only when the
    failing call site is shared by every class in that position; the finding's text names the call site)"""
    if pattern == sig:
        return True
    pf, sf = pattern.split("|"), sig.split("|")
    return len(pf) == len(sf) and all(p == "*" or p == s for p, s in zip(pf, sf))


def failure_kind(mm):
    """coarse, stable description of how a step failed: part of every finding signature"""
    import re
    msg = mm.get("msg", "")
    if mm.get("kind") == "raised" and "RecursionError" in msg:
        return "raised:RecursionError"      # the frame where the recursion limit is hit is not stable
    if mm.get("kind") == "raised":
        m = re.search(r"raised (\w+):.* at (\S+?):\d+ \((\w+)\)", msg)
        if m:
            return "raised:%s@%s:%s" % (m.group(1), m.group(2).split("/")[-1], m.group(3))
        m = re.search(r"raised (\w+)", msg)
        return "raised:%s" % (m.group(1) if m else "?")
    if mm.get("kind") == "noraise":
        return "no-exception"
    if "densifying the result raised" in msg:
        m = re.search(r"raised (\w+):.* at (\S+?):\d+ \((\w+)\)", msg)
        return "densify-raised:%s@%s:%s" % ((m.group(1), m.group(2).split("/")[-1], m.group(3)) if m else ("?", "?", "?"))
    if "shape" in msg and "expected" in msg and "value mismatch" not in msg:
        return "wrong-shape"
    if "dtype" in msg and "value mismatch" not in msg:
        return "wrong-dtype"
    if "non-finite" in msg:
        return "non-finite"
    return "wrong-value"


class Result:
    def __init__(self, prop, tier, seed, level="model_checking"):
        self.prop, self.tier, self.seed, self.level = prop, tier, seed, level
        self.t0 = time.time()
        self.states = 0
        self.transitions = 0
        self.evaluations = 0
        self.traces = 0
        self.nontrivial = set()
        self.samples = []
        self.violations = []   # dict(signature, msg, replay)
        self.notes = {}
        self.assumptions = []
        self.rule = ""
        self.exhaustive = False
        self.tlc_runs = []
        # replay files of earlier runs of this property are dropped: the directory holds the violations of the latest run only
        import shutil
        shutil.rmtree(os.path.join(WORK, "replays", prop), ignore_errors=True)

    def add_tlc(self, name, r):
        self.states += r["distinct"]
        self.transitions += r["states"]
        self.tlc_runs.append(dict(module=name, distinct_states=r["distinct"], states_generated=r["states"],
                                  depth=r["depth"], wall_s=round(r["wall_s"], 1)))

    def violation(self, signature, msg, replay_record):
        signature = signature.replace(" ", "")   # signatures are whitespace-free tokens of known_findings.txt
        from .replay import save_replay
        path = save_replay(self.prop, dict(property=self.prop, signature=signature, msg=msg, **replay_record))
        self.violations.append(dict(signature=signature, msg=msg, replay=path))

    def finish(self):
        wall = time.time() - self.t0
        known = [f for f in load_findings() if f["property"] == self.prop]
        printed_known = set()
        new = {}
        for v in self.violations:
            hit = next((f for f in known if _sig_match(f["signature"], v["signature"])), None)
            if hit:
                if hit["signature"] not in printed_known:
                    printed_known.add(hit["signature"])
                    print("KNOWN-FINDING: property=%s %s [%s]" % (self.prop, hit["what"], hit["signature"]))
            else:
                new.setdefault(v["signature"], v)
        if os.environ.get("VERIF_PROPOSE"):
            with open(os.path.join(WORK, "proposed_findings_%s.txt" % self.prop), "w") as f:
                for sig, v in sorted(new.items()):
                    f.write("finding: property=%s signature=%s :: %s\n" % (self.prop, sig, v["msg"][:300]))
        for sig, v in sorted(new.items()):
            print("VIOLATION property=%s replay=%s" % (self.prop, v["replay"]))
            print("  signature: %s" % sig)
            print("  %s" % v["msg"])
        cov = dict(
            states=self.states, transitions=self.transitions, traces_validated_against_impl=self.traces,
            samples=self.samples[:5] or [{"note": "no sample recorded"}],
            evaluations=self.evaluations, distinct_nontrivial=len(self.nontrivial), rule=self.rule,
            exhaustive=self.exhaustive, tlc_runs=self.tlc_runs,
            known_findings_hit=sorted(printed_known), new_violation_signatures=sorted(new)[:50],
        )
        cov.update(self.notes)
        ev = dict(property_id=self.prop, tier=self.tier, seed=self.seed, level=self.level, coverage=cov,
                  assumptions=self.assumptions, wall_s=round(wall, 2), violations=len(new),
                  repo_head=_git_head())
        os.makedirs(os.path.join(VERIF, "evidence"), exist_ok=True)
        with open(os.path.join(VERIF, "evidence", self.prop + ".json"), "w") as f:
            json.dump(ev, f, indent=1, default=str)
        print("%s %s: %d TLC states, %d behaviours/traces bound to the implementation, %d evaluations, "
              "%d new violation signature(s), %d known finding(s), %.1fs"
              % (self.prop, self.tier, self.states, self.traces, self.evaluations, len(new), len(printed_known), wall))
        return 1 if new else 0


def _git_head():
    try:
        h = subprocess.run(["git", "-C", "/repo", "rev-parse", "--short", "HEAD"], capture_output=True, text=True).stdout.strip()
        d = subprocess.run(["git", "-C", "/repo", "status", "--porcelain", "--untracked-files=no"], capture_output=True,
                           text=True).stdout.strip()
        return h + ("+dirty" if d else "")
    except Exception:
        return "unknown"


def _pool_init():
    import warnings

    import torch

    torch.set_num_threads(1)
    warnings.simplefilter("ignore")


def _seeded_call(a):
    """run one item with the global torch RNG seeded from its position: library code that draws random numbers (Lanczos start vectors, probe
    vectors) behaves the same in every run and in a replay"""
    import torch

    import zlib

    fn, idx, item = a
    # (seeded from the item's content, not its position: TLC's print order is not stable across runs)
    h = zlib.crc32(json.dumps(item, sort_keys=True, default=str).encode())
    torch.manual_seed(1000003 * (int(os.environ.get("VERIF_SEED", "0")) + 1) + h)
    return fn(item)


def pmap(fn, items, procs=16, chunksize=8):
    """Parallel map over behaviours with torch single-threaded workers (fork)."""
    items = list(items)
    if not items:
        return []
    work = [(fn, i, x) for i, x in enumerate(items)]
    if procs <= 1 or len(items) < 4:
        _pool_init()
        return [_seeded_call(w) for w in work]
    ctx = mp.get_context("fork")
    with ctx.Pool(procs, initializer=_pool_init) as pool:
        return pool.map(_seeded_call, work, chunksize=chunksize)
