"""Float predicates evaluated by the projection (DESIGN 3.5) and the zero-variance devices.

- relation checks against the exact dense matrix A supplied by the specification (factorizations are irrational in general, so
  they are checked *relationally*: L L^T = A with structural zeros, Q^T Q = I, Q diag(w) Q^T = A, ...);
- sampling_jacobian: a Gaussian sampler is a linear map J from the noise tensor(s) to the output; replacing torch.randn by one-hot
  tensors recovers J exactly, and J J^T must be the covariance.
"""
import math

import torch


def rel_err(X, Y):
    s = max(1.0, float(Y.abs().max())) if Y.numel() else 1.0
    return float((X - Y).abs().max()) / s if Y.numel() else 0.0


def tol(dtype, kind="direct"):
    if kind == "direct":
        return 5e-4 if dtype == torch.float32 else 1e-8
    if kind == "lanczos":      # documented 1e-6 tridiagonal jitter
        return 5e-3 if dtype == torch.float32 else 1e-4
    if kind == "cg":
        return 1e-2 if dtype == torch.float32 else 1e-3
    raise KeyError(kind)


def dense(x):
    return x.to_dense() if hasattr(x, "to_dense") else x


class RandnProbe:
    """Replaces torch.randn: every call is recorded; call number c returns the one-hot tensor whose flat position is `hot - offset(c)`
    (zeros otherwise), so that running the sampler once per `hot` recovers its Jacobian column by column."""

    def __init__(self, hot=None, real=False, base_seed=None):
        self.hot = hot
        self.real = real
        self.base_seed = base_seed      # not None: every call returns a fixed Gaussian base tensor (plus the one-hot entry)
        self.calls = []
        self.orig = torch.randn

    def __enter__(self):
        def fake(*size, **kw):
            kw.pop("generator", None)
            out = kw.pop("out", None)
            if len(size) == 1 and not isinstance(size[0], int):
                size = tuple(size[0])
            if self.real:
                self.calls.append(int(math.prod(size)))
                return self.orig(*size, **kw) if out is None else self.orig(*size, out=out, **kw)
            z = torch.zeros(*size, dtype=kw.get("dtype") or torch.get_default_dtype(), device=kw.get("device"))
            if self.base_seed is not None:
                g = torch.Generator().manual_seed(self.base_seed + len(self.calls))
                z = self.orig(*size, generator=g, dtype=torch.float64).to(z.dtype)
            n = z.numel()
            off = sum(c for c in self.calls)
            self.calls.append(n)
            if self.hot is not None and off <= self.hot < off + n:
                z.view(-1)[self.hot - off] += 1.0
            if out is not None:
                out.copy_(z)
                return out
            return z

        torch.randn = fake
        return self

    def __exit__(self, *a):
        torch.randn = self.orig


def sampling_jacobian(draw, affine_base=None):
    """draw() -> tensor of samples. Returns (J, out_shape) with J of shape (out.numel(), total noise numel).
    affine_base: seed of a fixed Gaussian base noise z0; column j is then draw(z0 + e_j) - draw(z0).  Needed for samplers that also use
    the noise to start an eigenvalue estimate (contour-integral quadrature): a one-hot or zero noise tensor would starve that estimate."""
    # a first real draw lets the sampler compute (and cache) whatever decomposition it needs with genuine random start
    # vectors; the second, recorded, draw then only consumes the noise itself
    with RandnProbe(None, real=True):
        draw()
    with RandnProbe(None, real=True) as p:
        out0 = draw()
    total = sum(p.calls)
    cols = []
    if affine_base is not None:
        with RandnProbe(None, base_seed=affine_base):
            f0 = draw().detach().reshape(-1).to(torch.float64)
    for j in range(total):
        with RandnProbe(j, base_seed=affine_base):
            cj = draw().detach().reshape(-1).to(torch.float64)
        cols.append(cj if affine_base is None else cj - f0)
    J = torch.stack(cols, dim=1) if cols else torch.zeros(out0.numel(), 0, dtype=torch.float64)
    return J, tuple(out0.shape)


def sampling_covariance_check(draw, A, k, dtype, kind="direct", affine_base=None):
    """A: exact dense covariance (*batch, n, n) float64. Returns None or a message."""
    J, shape = sampling_jacobian(draw, affine_base)
    if J.shape[1] == 0:
        # the sampler did not draw its noise through torch.randn: its Jacobian cannot be observed by this device (not judged)
        return None
    batch = tuple(A.shape[:-2])
    n = A.shape[-1]
    want = (k,) + batch + (n,)
    if shape != want:
        return "samples have shape %s, expected %s" % (list(shape), list(want))
    C = J @ J.T                                   # (k*B*n, k*B*n)
    B = int(math.prod(batch)) if batch else 1
    C = C.reshape(k, B, n, k, B, n)
    Af = A.reshape(B, n, n).to(torch.float64)
    scale = max(1.0, float(Af.abs().max()))
    t = tol(dtype, kind) * scale * 10
    for s in range(k):
        for b in range(B):
            for s2 in range(k):
                for b2 in range(B):
                    blk = C[s, b, :, s2, b2, :]
                    ref = Af[b] if (s == s2 and b == b2) else torch.zeros(n, n, dtype=torch.float64)
                    err = float((blk - ref).abs().max())
                    if err > t:
                        return ("covariance block (sample %d, batch %d) x (sample %d, batch %d) differs from %s by %.3g"
                                % (s, b, s2, b2, "the represented matrix" if (s == s2 and b == b2) else "zero", err))
    return None
