"""Binding layer: specification terms / tensors  ->  real linear_operator objects.

One entry per operator class of spec/LOOperators.tla (Op_Mk(cls, ops, ts, ks)).  The binding only calls
the documented public constructors; it never computes anything itself.
"""
import torch

import linear_operator
from linear_operator import operators as O
from linear_operator.operators import LinearOperator

DT = {"f32": torch.float32, "f64": torch.float64, "i64": torch.long, "bool": torch.bool}


def tensor(j, dtype):
    """spec tensor record {"shape": [...], "data": [...]} (optionally "den") -> torch tensor"""
    t = torch.tensor(j["data"], dtype=torch.float64 if dtype.is_floating_point else torch.long)
    den = j.get("den", 1)
    if den != 1:
        t = t / den
    t = t.reshape(j["shape"])
    return t.to(dtype)


class UserOp(LinearOperator):
    """The minimal user subclass of property C01: supplies only multiplication, size and transpose."""

    def __init__(self, tsr):
        super().__init__(tsr)
        self.tsr = tsr

    def _matmul(self, rhs):
        return self.tsr.matmul(rhs)

    def _size(self):
        return self.tsr.size()

    def _transpose_nonbatch(self):
        return UserOp(self.tsr.mT)


def _kernel_linear(x1, x2, c, **kw):
    return c[..., None, None] * (x1 @ x2.mT)


def _kernel_metric(x1, x2, c, metric, **kw):
    # metric: a LinearOperator (or, after densification, a tensor) d x d
    return c[..., None, None] * (x1 @ (metric @ x2.mT))


def _kernel_quad(x1, x2, c, **kw):
    return c[..., None, None] * (x1 @ x2.mT + 1.0) ** 2


def build(term, dtype, leaves=None, requires_grad=False, path=(), leafmap=None):
    """Construct the real operator for a spec term. `leaves` (list) collects the floating leaf tensors in
    construction order (used by the mutation-freedom monitor and the gradient checks).  `leafmap` (dict) maps (path of child
    indices, index into ts) -> floating leaf tensor; `requires_grad` may be a bool or a set of such keys."""
    if isinstance(dtype, str):
        dtype = DT[dtype]
    cls, ops, ts, ks = term["cls"], term["ops"], term["ts"], term["ks"]

    def F(i):
        t = tensor(ts[i], dtype)
        if requires_grad is True or (isinstance(requires_grad, (set, frozenset)) and (path, i) in requires_grad):
            t.requires_grad_(True)
        if leaves is not None:
            leaves.append(t)
        if leafmap is not None:
            leafmap[(path, i)] = t
        return t

    def L(i):
        t = tensor(ts[i], torch.long)
        if leaves is not None:
            leaves.append(t)
        return t

    def B(i):
        t = tensor(ts[i], torch.long).bool()
        if leaves is not None:
            leaves.append(t)
        return t

    def S(i):
        return build(ops[i], dtype, leaves, requires_grad, path + (i,), leafmap)

    def Sall():
        return [build(o, dtype, leaves, requires_grad, path + (k,), leafmap) for k, o in enumerate(ops)]

    if cls == "Dense":
        return O.DenseLinearOperator(F(0))
    if cls == "User":
        return UserOp(F(0))
    if cls == "Diag":
        return O.DiagLinearOperator(F(0))
    if cls == "ConstDiag":
        return O.ConstantDiagLinearOperator(F(0), diag_shape=ks[0])
    implicit = getattr(build, "implicit_dtype", False) and dtype == torch.get_default_dtype()
    if cls == "Identity":
        # (implicit: rely on the documented default "torch.get_default_dtype()" - only float32 is the signature default)
        if implicit and dtype == torch.float32:
            return O.IdentityLinearOperator(ks[0], batch_shape=torch.Size(ks[1:]))
        return O.IdentityLinearOperator(ks[0], batch_shape=torch.Size(ks[1:]), dtype=dtype)
    if cls == "Zero":
        if implicit:
            return O.ZeroLinearOperator(*ks)
        return O.ZeroLinearOperator(*ks, dtype=dtype)
    if cls == "Toeplitz":
        return O.ToeplitzLinearOperator(F(0))
    if cls == "Tri":
        return O.TriangularLinearOperator(S(0) if ops else F(0), upper=bool(ks[0]))
    if cls == "Chol":
        return O.CholLinearOperator(S(0), upper=bool(ks[0]))
    if cls == "Root":
        return O.RootLinearOperator(S(0) if ops else F(0))
    if cls == "LowRankRoot":
        return O.LowRankRootLinearOperator(F(0))
    if cls == "Kron":
        return O.KroneckerProductLinearOperator(*Sall())
    if cls == "KronTri":
        return O.KroneckerProductTriangularLinearOperator(*Sall(), upper=bool(ks[0]))
    if cls == "KronDiag":
        return O.KroneckerProductDiagLinearOperator(*Sall())
    if cls == "KronAddedDiag":
        return O.KroneckerProductAddedDiagLinearOperator(*Sall())
    if cls == "SumKron":
        return O.SumKroneckerLinearOperator(*Sall())
    if cls == "AddedDiag":
        return O.AddedDiagLinearOperator(*Sall())
    if cls == "LRRAddedDiag":
        return O.LowRankRootAddedDiagLinearOperator(*Sall())
    if cls == "Sum":
        return O.SumLinearOperator(*Sall())
    if cls == "PsdSum":
        return O.PsdSumLinearOperator(*Sall())
    if cls == "Matmul":
        return O.MatmulLinearOperator(*Sall())
    if cls == "Mul":
        return O.MulLinearOperator(*Sall())
    if cls == "ConstMul":
        return O.ConstantMulLinearOperator(S(0), F(0))
    if cls == "BlockDiag":
        return O.BlockDiagLinearOperator(S(0), block_dim=ks[0])
    if cls == "BlockInter":
        return O.BlockInterleavedLinearOperator(S(0), block_dim=ks[0])
    if cls == "SumBatch":
        return O.SumBatchLinearOperator(S(0), block_dim=ks[0])
    if cls == "BatchRepeat":
        return O.BatchRepeatLinearOperator(S(0), batch_repeat=torch.Size(ks))
    if cls == "Cat":
        subs = Sall()
        return O.CatLinearOperator(*subs, dim=ks[0], output_device=subs[0].device)  # as linear_operator.cat() does
    if cls == "Interp":
        base = S(0)
        return O.InterpolatedLinearOperator(base, L(0), F(1), L(2), F(3))
    if cls == "Masked":
        return O.MaskedLinearOperator(S(0), B(0), B(1))
    if cls == "Perm":
        return O.PermutationLinearOperator(L(0))
    if cls == "TransPerm":
        return O.TransposePermutationLinearOperator(ks[0])
    if cls == "Kernel":
        x1, x2, c = F(0), F(1), F(2)
        return O.KernelLinearOperator(
            x1, x2, covar_func=_kernel_linear if ks[0] == 0 else _kernel_quad, c=c, num_nonbatch_dimensions={"c": 0}
        )
    if cls == "InterpI32":
        return O.InterpolatedLinearOperator(S(0), L(0).to(torch.int32), F(1), L(2).to(torch.int32), F(3))
    if cls == "InterpLeft":
        return O.InterpolatedLinearOperator(S(0), L(0), F(1))
    if cls == "KernelM":
        x1, x2, c = F(0), F(1), F(2)
        return O.KernelLinearOperator(x1, x2, covar_func=_kernel_metric, c=c, metric=S(0), num_nonbatch_dimensions={"c": 0})
    raise KeyError("no binding for spec class %r" % cls)


def class_path(term):
    if not term["ops"]:
        return term["cls"]
    return term["cls"] + "(" + ",".join(class_path(o) for o in term["ops"]) + ")"
