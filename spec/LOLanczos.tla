----------------------------- MODULE LOLanczos -----------------------------
(***************************************************************************)
(* C09 - Lanczos tridiagonalisation (utils/lanczos.py).                     *)
(*                                                                         *)
(* (1) CONTROL.  The loop as a state machine over one abstract observation  *)
(*     per step - `small`: every coupling coefficient beta of this step is  *)
(*     below 1e-6 (breakdown: the Krylov space is exhausted) - and          *)
(*     `reorth`: the re-orthogonalisation loop succeeded.  With Krylov      *)
(*     dimension d the ideal result has r = min(max_iter, n, d) basis       *)
(*     vectors; MC_C09 checks that the implementation-shaped machine        *)
(*     produces exactly that for every (n, max_iter, d) and that slipped    *)
(*     variants do not.                                                     *)
(* (2) PROPERTY CLAUSES over recorded executions (one execution per         *)
(*     iteration budget 1..n+2 of the same start vectors), magnitudes       *)
(*     lg-encoded (round(1000 log2 x)); evaluated by TLC in Trace_C09.      *)
(***************************************************************************)
EXTENDS Integers, Sequences, FiniteSets, TLC

CONSTANTS LzVariant   \* "code" | "no_first_check" (the pinned tree: beta_0 never tested, budget 1 unsupported) | "no_trim" | "late_break"

Min2(a, b) == IF a < b THEN a ELSE b
Min3(a, b, c) == Min2(a, Min2(b, c))

\* ---- (1) control -----------------------------------------------------------------------------------------
\* cfg = [n, max_iter, d]; the observation `small` at step k (0-based) is true exactly when the Krylov space ends there: k + 1 = d
LZ_Small(cfg, k) == k + 1 >= cfg.d
LZ_NumIter(cfg) == Min2(cfg.max_iter, cfg.n)
LZ_Ideal(cfg) == Min3(cfg.max_iter, cfg.n, cfg.d)
\* state: [k, stored (number of basis vectors written), phase, r]
LZ_Init(cfg) ==
  LET ni == LZ_NumIter(cfg) IN
  IF ni = 1 THEN (IF LzVariant = "no_first_check" THEN [k |-> 0, stored |-> 1, phase |-> "crash", r |-> 0]
                  ELSE [k |-> 0, stored |-> 1, phase |-> "done", r |-> 1])
  ELSE IF LZ_Small(cfg, 0) /\ LzVariant # "no_first_check" THEN [k |-> 0, stored |-> 1, phase |-> "done", r |-> 1]
  ELSE [k |-> 1, stored |-> 2, phase |-> "loop", r |-> 0]
\* iteration k >= 1 of the for loop
LZ_Step(cfg, s) ==
  LET ni == LZ_NumIter(cfg) k == s.k IN
  IF k + 1 < ni
  THEN IF LZ_Small(cfg, k) /\ LzVariant # "late_break"
       THEN [s EXCEPT !.stored = k + 2, !.phase = "done", !.r = IF LzVariant = "no_trim" THEN k + 2 ELSE k + 1]   \* breakdown: trim to k + 1
       ELSE [s EXCEPT !.stored = k + 2, !.k = k + 1]
  ELSE [s EXCEPT !.phase = "done", !.r = k + 1]                                        \* last budgeted step: alpha only

\* ---- (2) clauses -------------------------------------------------------------------------------------------
\* thresholds (lg): orthonormality / projection / residual support, relative to ||A||
ThrF64 == -26575      \* 1e-8
ThrF32 == -9966       \* 1e-3
LZ_Thr(f32) == IF f32 THEN ThrF32 ELSE ThrF64
=============================================================================
