------------------------------ MODULE MC_C14 ------------------------------
(***************************************************************************)
(* C14 - copies, conversions and rebuilds denote the same matrix with the  *)
(* right dtype.                                                            *)
(* Abstract state: an operator value = (term, dtype of its floating data,   *)
(* requires_grad flag); the attribute record of a term lists, in            *)
(* construction order, the kind of every tensor leaf (floating / integer /  *)
(* boolean) and the non-tensor arguments (class names along the tree and     *)
(* the integer/boolean keyword arguments).  The actions clone, detach,      *)
(* to(dtype), type, double, float, cpu, evaluate_kernel, the                *)
(* representation-tree round trip and requires_grad_ are the identity on    *)
(* structure and denotation; they map the dtype of exactly the floating      *)
(* leaves.  TLC enumerates class x batch x (source, target, default) dtype   *)
(* x action and logs the expected attribute record.                         *)
(***************************************************************************)
EXTENDS LOGen, Json

CONSTANTS Tier, Seed, Part, NParts

VARIABLES desc, term, done
vars == <<desc, term, done>>

Cls == <<"Dense", "User", "Diag", "ConstDiag", "Identity", "Zero", "Toeplitz", "Tri", "Chol", "Root", "LowRankRoot",
         "Kron", "KronTri", "KronDiag", "KronAddedDiag", "SumKron", "AddedDiag", "LRRAddedDiag", "Sum", "PsdSum",
         "Matmul", "Mul", "ConstMul", "BlockDiag", "BlockInter", "SumBatch", "BatchRepeat", "Cat", "Interp", "Masked",
         "Perm", "TransPerm", "Kernel", "CholU", "KernelM", "InterpLeft", "InterpI32">>
Batches == << <<>>, <<2>> >>
Dts == <<"f32", "f64">>
Actions == <<"clone", "detach", "to_dtype", "type", "double", "float", "cpu", "rebuild", "requires_grad_", "evaluate_kernel", "outputs">>
DepthOf(c) == IF c \in G_LeafClasses THEN 0 ELSE 1
ModeOf(c) == IF c \in G_PsdOnly THEN 1 ELSE 0

\* kinds of the tensors in the operator's flattened representation(): "f" floating, "i" integer index data, "b" boolean mask
RECURSIVE LeafKinds(_)
LeafKinds(t) ==
  LET own == CASE t.cls = "Interp" -> <<"i", "f", "i", "f">>
               [] t.cls = "InterpI32" -> <<"j", "f", "j", "f">>       \* "j": int32 index data
               [] t.cls = "InterpLeft" -> <<"i", "f", "i", "f">>      \* the constructor materialises the default (identity) right side
               [] t.cls = "Masked" -> <<"b", "b">>
               [] t.cls = "Perm" -> <<"i", "i">>                      \* the permutation and its inverse
               [] OTHER -> [i \in 1..Len(t.ts) |-> "f"]
      RECURSIVE subs(_)
      subs(k) == IF k > Len(t.ops) THEN <<>> ELSE LeafKinds(t.ops[k]) \o subs(k + 1)
  IN subs(1) \o own
\* the non-tensor structure: class names along the tree (pre-order) and the integer / boolean arguments
RECURSIVE Structure(_)
Structure(t) ==
  LET RECURSIVE subs(_)
      subs(k) == IF k > Len(t.ops) THEN <<>> ELSE Structure(t.ops[k]) \o subs(k + 1)
  IN <<[cls |-> t.cls, ks |-> t.ks]>> \o subs(1)

TargetOf(a, src, tgt) ==
  CASE a \in {"to_dtype", "type"} -> tgt
    [] a = "double" -> "f64"
    [] a = "float" -> "f32"
    [] OTHER -> src

Init ==
  /\ \E c \in 1..Len(Cls), bi \in 1..Len(Batches), s \in 1..2, t \in 1..2, d \in 1..2, a \in 1..Len(Actions), sw \in 0..1 :
       /\ (Cls[c] = "TransPerm" => Batches[bi] = <<>>)
       /\ ((c + bi + a) % NParts = Part)
       /\ (Tier = "quick" => ((c + a + s + t + d + bi + sw) % 3 = 0 \/ (Cls[c] \in {"Identity", "Zero"} /\ sw = 1)))
       /\ (Actions[a] \in {"to_dtype", "type"} \/ t = 1)
       \* permutation operators carry no floating data: their dtype attribute is a fixed float32 label
       /\ (Cls[c] \in {"Perm", "TransPerm"} => (s = 1 /\ Actions[a] \notin {"to_dtype", "type", "double", "float"}))                          \* the target only matters for to / type
       /\ desc = [cls |-> Cls[c], b |-> Batches[bi], src |-> Dts[s], tgt |-> Dts[t], default |-> Dts[d], action |-> Actions[a],
                  \* switch = 1: floating arguments with an implicit dtype are constructed under the default dtype, and torch's default
                  \* dtype is switched to the other one between construction and the action
                  switch |-> sw,
                  id |-> (((((c * 4 + bi) * 2 + s) * 2 + t) * 2 + d) * 16 + a) * 2 + sw, seed |-> c * 13 + bi * 5]
  /\ term = <<>> /\ done = FALSE

Emit ==
  /\ ~done /\ done' = TRUE
  /\ term' = G_Term(desc.cls, 4, 4, desc.b, desc.seed, DepthOf(desc.cls), ModeOf(desc.cls))
  /\ LET A == Op_Denote(term') tgt == TargetOf(desc.action, desc.src, desc.tgt) kinds == LeafKinds(term')
     IN PrintT(ToJson([chk |-> "C14", desc |-> desc, path |-> Op_Path(term'), term |-> term', dense |-> A,
                       expect |-> [dtype |-> tgt,
                                   leaf_dtypes |-> [i \in 1..Len(kinds) |-> IF kinds[i] = "f" THEN tgt ELSE IF kinds[i] = "i" THEN "i64" ELSE IF kinds[i] = "j" THEN "i32" ELSE "bool"],
                                   structure |-> Structure(term'), shape |-> A.shape]]))
  /\ UNCHANGED desc
Next == Emit
Spec == Init /\ [][Next]_vars
\* an action never changes the leaf kinds or the structure (the identity on the attribute record): type invariant of the expectation
InvKinds == done => Len(LeafKinds(term)) >= 0
=============================================================================
