----------------------------- MODULE LORewrite -----------------------------
(***************************************************************************)
(* The type-dispatching rewrite rules of `a + b` for two operators          *)
(* (LinearOperator.__add__ and its overrides), as a function from the two   *)
(* TERMS to the class of the result the library builds.  The property (C02) *)
(* says the chosen result type is invisible in the value; this module       *)
(* models WHICH type is chosen, so that the conformance pass can report      *)
(* where the implementation's choice differs from the model (drift: purely  *)
(* informative, never a violation).  "?" = not modelled.                     *)
(*                                                                         *)
(* Method resolution follows the class hierarchy:                           *)
(*   Identity < ConstDiag < Diag < Tri;  KronDiag < Diag, KronTri < Kron;   *)
(*   Chol, LowRankRoot < Root;  AddedDiag, SumKron, PsdSum < Sum;           *)
(*   KronAddedDiag, LRRAddedDiag < AddedDiag.                               *)
(***************************************************************************)
EXTENDS Integers, Sequences

RW_IsDiag(c) == c \in {"Diag", "ConstDiag", "Identity", "KronDiag"}
RW_IsConstDiag(c) == c \in {"ConstDiag", "Identity"}
RW_IsRoot(c) == c \in {"Root", "Chol", "LowRankRoot"}
RW_IsKron(c) == c \in {"Kron", "KronTri", "KronDiag"}
RW_IsSum(c) == c \in {"Sum", "AddedDiag", "KronAddedDiag", "LRRAddedDiag", "SumKron", "PsdSum"}

\* LinearOperator.__add__ (the base rule) for a second operand that is neither zero, diagonal nor in root form
RW_Base(ca, cb, small) ==
  IF cb = "Zero" THEN ca
  ELSE IF RW_IsDiag(cb) THEN "AddedDiag"
  ELSE "Sum"
\* a + RootLinearOperator(R) is a.add_low_rank(R): the summand R R^T is formed as a product of operators (diagonal when the root is, a lazy
\* product otherwise); a sum-type first operand is flattened and - below max_cholesky_size (small) - densified
RW_RootProduct(b) == IF Len(b.ops) = 1 /\ RW_IsDiag(b.ops[1].cls) THEN [cls |-> "Diag", ops |-> <<>>, ts |-> <<>>, ks |-> <<>>]
                     ELSE [cls |-> "Matmul", ops |-> <<>>, ts |-> <<>>, ks |-> <<>>]

RECURSIVE RW_AddOuter(_, _, _)
RW_AddOuter(a, b, small) ==
  LET ca == a.cls cb == b.cls
      \* does the most specific __add__ of ca end in the base rule for a root-form second operand?
      viaBase == ca \notin {"Zero", "ConstDiag", "Identity", "Diag", "KronDiag", "Tri", "AddedDiag", "KronAddedDiag", "LRRAddedDiag", "Sum", "SumKron", "PsdSum"}
  IN
  CASE RW_IsRoot(cb) /\ viaBase -> RW_AddOuter(a, RW_RootProduct(b), small)
    [] ca = "Zero" -> cb
    [] ca = "Dense" -> IF cb = "Dense" THEN "Dense" ELSE RW_Base(ca, cb, small)
    [] RW_IsConstDiag(ca) -> IF RW_IsConstDiag(cb) THEN "ConstDiag" ELSE IF RW_IsDiag(cb) THEN "Diag" ELSE "AddedDiag"
    [] ca \in {"Diag", "KronDiag"} -> IF RW_IsDiag(cb) THEN "Diag" ELSE "AddedDiag"
    [] ca = "Tri" -> IF RW_IsDiag(cb) THEN "Tri"
                     ELSE IF cb = "Tri" /\ a.ks[1] = b.ks[1] THEN "Tri"
                     ELSE IF Len(a.ops) = 1 THEN RW_AddOuter(a.ops[1], b, small)
                     ELSE RW_AddOuter([cls |-> "Dense", ops |-> <<>>, ts |-> a.ts, ks |-> <<>>], b, small)
    [] ca \in {"Kron", "KronTri"} -> IF cb \in {"KronDiag", "ConstDiag", "Identity"} THEN "KronAddedDiag"
                                      ELSE IF RW_IsKron(cb) THEN "SumKron"
                                      ELSE IF cb = "Diag" THEN "?"
                                      ELSE RW_Base(ca, cb, small)
    [] ca = "LowRankRoot" -> IF RW_IsDiag(cb) THEN "LRRAddedDiag" ELSE RW_Base(ca, cb, small)
    [] ca = "KronAddedDiag" -> IF RW_IsConstDiag(cb) THEN "?" ELSE "KronAddedDiag"
    [] ca = "LRRAddedDiag" -> IF RW_IsDiag(cb) THEN "LRRAddedDiag" ELSE "AddedDiag"
    [] ca = "AddedDiag" -> "AddedDiag"
    [] ca \in {"Sum", "SumKron", "PsdSum"} -> IF cb = "Zero" THEN ca ELSE IF RW_IsDiag(cb) THEN "AddedDiag" ELSE "Sum"
    [] OTHER -> RW_Base(ca, cb, small)
=============================================================================
