------------------------------- MODULE LOGrad -------------------------------
(***************************************************************************)
(* C07 - the exact Jacobian of the denotation with respect to every         *)
(* floating leaf tensor of a term.                                          *)
(*                                                                         *)
(* Every entry of Op_Denote(t) is a polynomial of degree <= 4 in each       *)
(* single entry of each leaf tensor (roots enter as R R^T, a root of a root *)
(* is quartic, everything else is multilinear), so the five-point central   *)
(* difference with step 1,                                                  *)
(*   D_k = (8 (A(th + e_k) - A(th - e_k)) - (A(th + 2e_k) - A(th - 2e_k)))/12 *)
(* IS the partial derivative dA / d theta_k - computed from the             *)
(* denotation alone, with broadcast (expanded) parameters summed back       *)
(* automatically.  GR_Quadratic checks the degree assumption (the third     *)
(* difference vanishes).  The gradient of any scalar g(A) with respect to   *)
(* theta_k is then <dg/dA, D_k>, with dg/dA obtained from the dense         *)
(* computation - which is the statement of C07.                             *)
(***************************************************************************)
EXTENDS LOOperators

\* 1-based indices of the floating tensors among t.ts
GR_FloatTs(t) == CASE t.cls \in {"Interp", "InterpI32"} -> {2, 4}
                   [] t.cls = "InterpLeft" -> {2}
                   [] t.cls \in {"Masked", "Perm", "TransPerm", "Identity", "Zero"} -> {}
                   [] OTHER -> 1..Len(t.ts)
\* leaves as [path |-> child indices (0-based, for the binding), ti |-> index into ts (0-based), numel]
RECURSIVE GR_Leaves(_, _)
GR_Leaves(t, path) ==
  LET RECURSIVE own(_) own(i) == IF i > Len(t.ts) THEN <<>>
                                  ELSE (IF i \in GR_FloatTs(t) THEN <<[path |-> path, ti |-> i - 1, numel |-> Len(t.ts[i].data), shape |-> t.ts[i].shape,
                                                                         \* a triangular operator is defined by one triangle of its tensor only: the other entries are not parameters
                                                                         tri |-> IF t.cls = "Tri" THEN (IF t.ks[1] = 1 THEN "upper" ELSE "lower") ELSE "all"]>> ELSE <<>>) \o own(i + 1)
      RECURSIVE kids(_) kids(k) == IF k > Len(t.ops) THEN <<>> ELSE GR_Leaves(t.ops[k], Append(path, k - 1)) \o kids(k + 1)
  IN own(1) \o kids(1)
RECURSIVE GR_Set(_, _, _, _, _)
GR_Set(t, path, ti, k, delta) ==
  IF Len(path) = 0 THEN [t EXCEPT !.ts[ti + 1].data[k] = @ + delta]
  ELSE [t EXCEPT !.ops[path[1] + 1] = GR_Set(@, Tail(path), ti, k, delta)]
\* flat derivative of the denotation with respect to entry k (1-based) of a leaf: five-point stencil, exact up to degree 4
\* (a root of a root is quartic in the innermost tensor)
GR_Jac(t, leaf, k) ==
  LET F(d) == Op_Denote(GR_Set(t, leaf.path, leaf.ti, k, d)) A2 == F(2) A1 == F(1) B1 == F(-1) B2 == F(-2)
  IN [q \in 1..Len(A1.data) |-> (8 * (A1.data[q] - B1.data[q]) - (A2.data[q] - B2.data[q])) \div 12]
GR_Even(t, leaf, k) ==
  LET F(d) == Op_Denote(GR_Set(t, leaf.path, leaf.ti, k, d)) A2 == F(2) A1 == F(1) B1 == F(-1) B2 == F(-2)
  IN \A q \in 1..Len(A1.data) : (8 * (A1.data[q] - B1.data[q]) - (A2.data[q] - B2.data[q])) % 12 = 0
\* degree <= 4 in entry k: the central fifth difference vanishes
GR_Quadratic(t, leaf, k) ==
  LET F(d) == Op_Denote(GR_Set(t, leaf.path, leaf.ti, k, d)) A3 == F(3) A2 == F(2) A1 == F(1) B1 == F(-1) B2 == F(-2) B3 == F(-3)
  IN \A q \in 1..Len(A2.data) : A3.data[q] - 4 * A2.data[q] + 5 * A1.data[q] - 5 * B1.data[q] + 4 * B2.data[q] - B3.data[q] = 0
=============================================================================
