----------------------------- MODULE LOSettings -----------------------------
(***************************************************************************)
(* C17 - settings contexts are properly scoped and never leak.             *)
(*                                                                         *)
(* Abstract setting slots (bound to the real classes by harness/checks/     *)
(* c17.py): two feature flags F1 F2, two scalar values V1 V2, one per-dtype *)
(* value class with slots Df Dd Dh (Dh is unset = None by default, like     *)
(* cholesky_jitter's half slot), one more flag P that owns a cache which is *)
(* reset whenever its state is set (deterministic_probes).                  *)
(* Context classes: one per flag / value, "D" (sets any subset of the three *)
(* dtype slots), and the composites "CF" (F1 then F2, like                  *)
(* fast_computations) and "CV" (V1 then V2, like linalg_dtypes).            *)
(*                                                                         *)
(* S-layer (variables cur, stack): Enter pushes the complete value in force *)
(* and applies the context; Exit pops and restores it.                      *)
(* M-layer (variables icur, snap): what linear_operator/settings.py does.   *)
(*   Impl = "pinned": the previous value is snapshotted in __init__ and the  *)
(*        dtype class skips None when restoring (the pinned tree);          *)
(*   Impl = "fixed" : the previous value is pushed on a per-object stack in  *)
(*        __enter__ and restored unconditionally in __exit__ (repaired).    *)
(* TLC checks  icur = cur  on every reachable state (Refines), the action   *)
(* properties RestoreOnExit / NoCrossLeak and DefaultsAtQuiescence.         *)
(***************************************************************************)
EXTENDS Integers, Sequences, FiniteSets, TLC, Json

CONSTANTS Ctxs,      \* set of context object names (model values or numbers)
          Depth,     \* maximal history length
          Impl,      \* "pinned" | "fixed"
          Emit       \* TRUE: print every maximal history as JSON (behaviour generation)

None == 0            \* "unset"
Slots == {"F1", "F2", "P", "V1", "V2", "Df", "Dd", "Dh"}
FlagSlots == {"F1", "F2", "P"}
\* values: flags use 1 = False, 2 = True; scalar values use 1, 2; None = never set (class default applies)
Default == [s \in Slots |-> IF s = "Dh" \/ s \in FlagSlots THEN None ELSE 3]   \* 3 = the class-level default value
Classes == {"F1", "F2", "P", "V1", "V2", "D", "CF", "CV"}

\* the (slot, value) assignments a context instance makes on entry, in order
Parts(cls, a, b, c) ==
  CASE cls \in {"F1", "F2", "P", "V1", "V2"} -> << <<cls, a>> >>
    [] cls = "D" -> << <<"Df", a>>, <<"Dd", b>>, <<"Dh", c>> >>      \* None = "not given": leaves the slot alone
    [] cls = "CF" -> << <<"F1", a>>, <<"F2", b>> >>
    [] cls = "CV" -> << <<"V1", a>>, <<"V2", b>> >>

VARIABLES cur,       \* S: slot -> value in force
          stack,     \* S: sequence of [ctx, saved] for the contexts currently entered (LIFO, as nested with-blocks)
          obj,       \* ctx -> [made, cls, a, b, c]
          icur,      \* M: slot -> value the implementation holds
          snap,      \* M: ctx -> sequence of snapshots (each a function part-index -> value)
          cache,     \* the probe cache owned by flag P is filled (TRUE) or empty
          hist
vars == <<cur, stack, obj, icur, snap, cache, hist>>

Init ==
  /\ cur = Default /\ icur = Default /\ stack = <<>>
  /\ obj = [c \in Ctxs |-> [made |-> FALSE, cls |-> "F1", a |-> None, b |-> None, c |-> None]]
  /\ snap = [c \in Ctxs |-> <<>>]
  /\ cache = FALSE /\ hist = <<>>

Log(act, c, o) == hist' = Append(hist, [act |-> act, ctx |-> c, obj |-> o, expect |-> cur', cache |-> cache'])

PartsOf(c) == Parts(obj[c].cls, obj[c].a, obj[c].b, obj[c].c)
PartsOfRec(o) == Parts(o.cls, o.a, o.b, o.c)

\* apply a sequence of (slot, value) assignments; dtype parts with value None are skipped
RECURSIVE Apply(_, _, _)
Apply(f, ps, skipNone) ==
  IF Len(ps) = 0 THEN f
  ELSE LET s == ps[1][1] v == ps[1][2]
       IN Apply(IF skipNone /\ v = None THEN f ELSE [f EXCEPT ![s] = v], Tail(ps), skipNone)

TouchesP(ps) == \E i \in 1..Len(ps) : ps[i][1] = "P"

\* ---- Construct: choose class and instance values -------------------------------------------------
ArgOk(cls, a, b, c) ==
  CASE cls \in {"F1", "F2", "P", "V1", "V2"} -> a \in {1, 2} /\ b = None /\ c = None
    [] cls = "D" -> a \in {None, 1} /\ b \in {None, 2} /\ c \in {None, 1} /\ <<a, b, c>> # <<None, None, None>>
    [] cls \in {"CF", "CV"} -> a \in {1, 2} /\ b \in {1, 2} /\ c = None

Construct(c, cls, a, b, cc) ==
  /\ ~obj[c].made /\ ArgOk(cls, a, b, cc)
  /\ \A d \in Ctxs : d < c => obj[d].made          \* symmetry breaking: objects are created in order
  /\ LET o == [made |-> TRUE, cls |-> cls, a |-> a, b |-> b, c |-> cc] ps == PartsOfRec(o)
     IN /\ obj' = [obj EXCEPT ![c] = o]
        \* M, pinned tree: the previous values are read in __init__
        /\ snap' = IF Impl = "pinned" THEN [snap EXCEPT ![c] = << [i \in 1..Len(ps) |-> icur[ps[i][1]]] >>] ELSE snap
        /\ UNCHANGED <<cur, stack, icur, cache>>
        /\ Log("construct", c, o)

\* ---- Enter ---------------------------------------------------------------------------------------
Entered(c) == \E i \in 1..Len(stack) : stack[i].ctx = c
Enter(c) ==
  /\ obj[c].made
  /\ (Impl = "pinned" => ~Entered(c))     \* the pinned snapshot cannot support re-entrance at all; fixed: allowed
  /\ Len(stack) < 4
  /\ LET ps == PartsOf(c)
     IN /\ stack' = Append(stack, [ctx |-> c, saved |-> cur])
        /\ cur' = Apply(cur, ps, obj[c].cls = "D")
        /\ snap' = IF Impl = "fixed" THEN [snap EXCEPT ![c] = Append(@, [i \in 1..Len(ps) |-> icur[ps[i][1]]])] ELSE snap
        /\ icur' = Apply(icur, ps, obj[c].cls = "D")
        /\ cache' = IF TouchesP(ps) THEN FALSE ELSE cache
        /\ UNCHANGED obj
        /\ Log("enter", c, obj[c])

\* ---- Exit (normal or by exception: same code path, __exit__ returns False) -----------------------
Exit(exc) ==
  /\ Len(stack) > 0
  /\ LET top == stack[Len(stack)] c == top.ctx ps == PartsOf(c)
         sn == snap[c][Len(snap[c])]
         restore == [i \in 1..Len(ps) |-> <<ps[i][1], sn[i]>>]
     IN /\ stack' = SubSeq(stack, 1, Len(stack) - 1)
        /\ cur' = top.saved
        \* M: pinned dtype class goes through _set_value, which ignores None; everything else assigns
        /\ icur' = Apply(icur, restore, Impl = "pinned" /\ obj[c].cls = "D")
        /\ snap' = IF Impl = "fixed" THEN [snap EXCEPT ![c] = SubSeq(@, 1, Len(@) - 1)] ELSE snap
        /\ cache' = IF TouchesP(ps) THEN FALSE ELSE cache
        /\ UNCHANGED obj
        /\ Log(IF exc THEN "exit_exc" ELSE "exit", c, obj[c])

\* the probe cache is filled by a computation while P is on
FillCache ==
  /\ cur["P"] = 2 /\ ~cache /\ cache' = TRUE
  /\ UNCHANGED <<cur, stack, obj, icur, snap>>
  /\ Log("fill_cache", 0, obj[CHOOSE c \in Ctxs : TRUE])

Next ==
  /\ Len(hist) < Depth
  /\ \/ \E c \in Ctxs, cls \in Classes, a \in 0..2, b \in 0..2, cc \in 0..2 : Construct(c, cls, a, b, cc)
     \/ \E c \in Ctxs : Enter(c)
     \/ Exit(FALSE) \/ Exit(TRUE)
     \/ FillCache

Spec == Init /\ [][Next]_vars

\* ---- properties ----------------------------------------------------------------------------------
\* the implementation-shaped model holds the same values as the ideal one
Refines == icur = cur
\* outside every with-block all settings have their defaults
DefaultsAtQuiescence == (stack = <<>>) => cur = Default
ImplDefaultsAtQuiescence == (stack = <<>>) => icur = Default
\* on exit the value in force immediately before the matching enter is restored
RestoreOnExit == [][Len(stack') < Len(stack) => cur' = stack[Len(stack)].saved]_vars
\* a context never changes a slot it does not own
NoCrossLeak == [][\A s \in Slots : cur'[s] # cur[s] =>
                    \E c \in Ctxs : obj'[c].made /\ \E i \in 1..Len(PartsOfRec(obj'[c])) : PartsOfRec(obj'[c])[i][1] = s]_vars
\* the per-object snapshot stacks mirror the entered contexts (fixed implementation)
SnapDiscipline == Impl = "fixed" => \A c \in Ctxs : Len(snap[c]) = Cardinality({i \in 1..Len(stack) : stack[i].ctx = c})

\* behaviour generation: maximal histories (or histories that ended at quiescence at full depth)
EmitInv == (Emit /\ Len(hist) = Depth) => PrintT(ToJson(hist))
=============================================================================
