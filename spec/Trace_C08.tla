----------------------------- MODULE Trace_C08 -----------------------------
(***************************************************************************)
(* Validation of executions recorded from linear_cg against LOCG.           *)
(* The file named by the environment variable TRACE_FILE holds a JSON array *)
(* of traces; every trace is consumed step by step (one step = the call     *)
(* with iteration budget j), every clause of the property is evaluated at   *)
(* every step, and the names of the clauses that failed are collected, so   *)
(* that each trace ends with a total verdict (one PrintT line per trace).   *)
(* The control layer of LOCG is run over the logged observations as well;   *)
(* a disagreement in iteration count / warning / tridiagonal size is        *)
(* reported as `drift` (information), not as a property violation.          *)
(***************************************************************************)
EXTENDS LOCG, Json, IOUtils

Traces == JsonDeserialize(IOEnv.TRACE_FILE)

VARIABLES tid, l, fails, prevErr, prevRes, frozen
vars == <<tid, l, fails, prevErr, prevRes, frozen>>

Tr == Traces[tid]
Cols == 1..Tr.cfg.ncols
F32 == Tr.cfg.dt = "f32"
LgFreeze == -36541                          \* lg(1e-11): one decade below stop_updating_after = 1e-10
QuadThr == IF F32 THEN -9966 ELSE -19932    \* 1e-3 / 1e-6 relative deviation of e1^T f(T) e1 from z^T f(A) z
LanThr == IF F32 THEN -9966 ELSE -19932     \* deviation of T from the Lanczos coefficients computed independently
LimitThr == IF F32 THEN -9966 ELSE -23253   \* 1e-3 / 1e-7: scaling law, preconditioner independence of the limit
NA == -99999

Init == tid \in 1..Len(Traces) /\ l = 0 /\ fails = <<>> /\ prevErr = <<>> /\ prevRes = <<>> /\ frozen = {}

Add(fs, ok, name) == IF ok THEN fs ELSE Append(fs, name)

Step ==
  /\ l < Len(Tr.steps)
  /\ LET st == Tr.steps[l + 1] j == l cfg == Tr.cfg IN
     /\ IF j = 0 THEN fails' = fails
        ELSE LET live == {c \in Cols : ~cfg.zero[c]}
                 f1 == Add(fails, \A c \in live : CL_Mono(prevErr[c], st.err[c], prevRes[c], cfg.lgfloor), "error-increases@" \o ToString(j))
                 f2 == Add(f1, \A c \in live : CL_Bound(st.err[c], st.it, cfg.lgrho, st.res[c], cfg.lgfloor), "classical-bound@" \o ToString(j))   \* st.it: iterations actually performed with budget j
                 f3 == Add(f2, \A c \in frozen : ~st.changed[c], "converged-column-changes@" \o ToString(j))
                 f4 == Add(f3, CL_NoWarn(st.warned, st.meanres, cfg.lgtol), "no-warning-above-tolerance@" \o ToString(j))
                 f5 == Add(f4, \A c \in Cols : cfg.zero[c] => ~st.changed[c], "zero-column-changes@" \o ToString(j))
             IN fails' = f5
     /\ prevErr' = st.err /\ prevRes' = st.res
     /\ frozen' = frozen \cup {c \in Cols : st.res[c] < LgFreeze}
  /\ l' = l + 1 /\ UNCHANGED tid

RECURSIVE CtlRun(_, _, _, _)
CtlRun(cfg, s, obs, i) == IF s.phase # "loop" \/ i > Len(obs) THEN s
                          ELSE CtlRun(cfg, CG_Iter(cfg, s, [below |-> obs[i][1], small |-> obs[i][2]]), obs, i + 1)

Finish ==
  /\ l = Len(Tr.steps)
  /\ LET cfg == Tr.cfg fin == Tr.final
         ctl == [n |-> cfg.n, max_iter |-> cfg.max_iter, max_tri |-> cfg.max_tri, n_tri |-> cfg.n_tri, by_size |-> cfg.by_size,
                 all_conv0 |-> cfg.all_conv0, nan |-> cfg.nan]
         f0 == Add(fails, fin.raised = CG_Raises(ctl), IF fin.raised THEN "raises-on-consistent-input" ELSE "returns-on-nan-or-inconsistent-limits")
         tchk == cfg.n_tri > 0 /\ ~fin.raised
         f1 == Add(f0, tchk => fin.tsym, "T-not-symmetric-tridiagonal")
         f2 == Add(f1, tchk => fin.ritz, "ritz-values-outside-spectrum")
         f3 == Add(f2, tchk => (fin.tside >= 1 /\ fin.tside <= Min2(cfg.max_tri, cfg.n)), "T-size")
         \* the tolerance exit never cuts the tridiagonalisation short of its budget: rows 0 .. min(max_tri, n, max_iter - 1) - 1 are
         \* always written (LOCG: CG_ExitOk), unless Lanczos itself broke down there (fin.breakdown, from the independent recurrence)
         f3b == Add(f3, (tchk /\ fin.budget_applies) => fin.tside >= Min2(Min2(cfg.max_tri, cfg.n), cfg.max_iter - 1), "tridiagonalisation-cut-short-of-its-budget")
         f4 == Add(f3b, (tchk /\ fin.quad # NA) => fin.quad <= QuadThr, "quadrature-identity")
         f5 == Add(f4, (tchk /\ fin.lanczos # NA) => fin.lanczos <= LanThr, "T-is-not-the-lanczos-matrix")
         f6 == Add(f5, fin.raised \/ fin.zero_ok, "zero-rhs-column-not-zero")
         f7 == Add(f6, fin.scale # NA => fin.scale <= LimitThr, "not-linear-in-rhs")
         f8 == Add(f7, fin.precond # NA => fin.precond <= LimitThr, "limit-depends-on-preconditioner")
         f9 == Add(f8, (~fin.raised /\ Len(Tr.steps) > 0) => CL_NoWarn(fin.warned, fin.meanres, cfg.lgtol), "no-warning-above-tolerance@final")
         cs == IF fin.raised THEN CG_Init(ctl) ELSE CtlRun(ctl, CG_Init(ctl), fin.obs, 1)
         drift == ~fin.raised /\ cs.phase = "done" /\
                  (cs.iters # fin.iters \/ CG_Warned(ctl, cs) # fin.warned \/ (cfg.n_tri > 0 /\ CG_TSide(cs) # fin.tside))
     IN /\ fails' = f9
        /\ PrintT(ToJson([tid |-> Tr.tid, fails |-> f9, drift |-> drift]))
  /\ l' = l + 1 /\ UNCHANGED <<tid, prevErr, prevRes, frozen>>

Next == Step \/ Finish
Spec == Init /\ [][Next]_vars
=============================================================================
