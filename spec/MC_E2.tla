------------------------------ MODULE MC_E2 ------------------------------
(***************************************************************************)
(* C04 / C05 - solve, log-determinant and inverse quadratic forms equal    *)
(* the exact values whichever algorithm the library selects.               *)
(*                                                                         *)
(* LOSelect: the method-selection predicates as a pure function of          *)
(* (class, size, configuration); TLC enumerates PD class x batch x rhs      *)
(* shapes x configuration, checks that every selection path is reachable    *)
(* in the enumerated space (PathsCovered, checked by the harness from the   *)
(* emitted labels) and computes the exact rational answers with LORational. *)
(***************************************************************************)
EXTENDS LOGen, LORational, Json

CONSTANTS Tier, Seed, Part, NParts

VARIABLES desc, term, dense, pc
vars == <<desc, term, dense, pc>>
N == 4
Cls == <<"Dense", "Diag", "ConstDiag", "Identity", "Toeplitz", "Chol", "Kron", "KronDiag", "KronAddedDiag", "SumKron", "AddedDiag",
         "LRRAddedDiag", "Sum", "PsdSum", "ConstMul", "BlockDiag", "BlockInter", "BatchRepeat", "Tri", "AddedDiagI", "LRRAddedDiagI", "User">>
Batches == << <<>>, <<2>> >>
DepthOf(c) == IF c \in G_LeafClasses THEN 0 ELSE 1

\* configurations: [max_chol (0 = force iterative paths, 800 = default), fast_solves, fast_log_prob, cg_tol_small, precond, memory_efficient]
Cfgs == { [max_chol |-> mc, fast_solves |-> fs, fast_log_prob |-> fl, cg_tol_small |-> ct, precond |-> pr, memory_efficient |-> me]
          : mc \in {0, 800}, fs \in BOOLEAN, fl \in BOOLEAN, ct \in BOOLEAN, pr \in BOOLEAN, me \in BOOLEAN }
CfgId(c) == (IF c.max_chol = 0 THEN 1 ELSE 0) + (IF c.fast_solves THEN 2 ELSE 0) + (IF c.fast_log_prob THEN 4 ELSE 0)
            + (IF c.cg_tol_small THEN 8 ELSE 0) + (IF c.precond THEN 16 ELSE 0) + (IF c.memory_efficient THEN 32 ELSE 0)

\* ---- LOSelect ------------------------------------------------------------------------------------------
SolvePath(cls, n, c) ==
  IF cls \in {"Chol", "Tri"} THEN "class-shortcut"
  ELSE IF ~c.fast_solves \/ n <= c.max_chol THEN "cholesky"
  ELSE IF c.precond THEN "cg+preconditioner-if-any" ELSE "cg"
LogdetPath(cls, n, c) ==
  IF n <= c.max_chol \/ ~c.fast_log_prob THEN "cholesky" ELSE "stochastic-lanczos-quadrature"

Init ==
  /\ \E ci \in 1..Len(Cls), bi \in 1..Len(Batches), c \in Cfgs :
       /\ ((ci * 7 + bi + CfgId(c)) % NParts = Part)
       /\ (Tier = "quick" => ((ci + bi + CfgId(c)) % 4 = 0 \/ CfgId(c) \in {0, 63 - 32, 3 + 4}))
       /\ desc = [cls |-> Cls[ci], b |-> Batches[bi], cfg |-> c, cfgid |-> CfgId(c), id |-> (ci * 4 + bi) * 64 + CfgId(c),
                  dt |-> IF (ci + CfgId(c)) % 3 = 0 THEN "f32" ELSE "f64", seed |-> ci * 13 + bi * 5,
                  solve_path |-> SolvePath(Cls[ci], N, c), logdet_path |-> LogdetPath(Cls[ci], N, c)]
  /\ term = <<>> /\ dense = <<>> /\ pc = 0

Construct ==
  /\ pc = 0 /\ pc' = 1
  /\ term' = G_Term(desc.cls, N, N, desc.b, desc.seed, DepthOf(desc.cls), 1)
  /\ dense' = Op_Denote(term')
  /\ UNCHANGED desc

\* right-hand sides
Bvec == G_Int(<<N>>, desc.seed + 61)
Bmat == G_Int(desc.b \o <<N, 2>>, desc.seed + 63)
Bbc == G_Int(<<3>> \o [i \in 1..Len(desc.b) |-> 1] \o <<N, 1>>, desc.seed + 65)        \* extra leading batch dim, broadcasting
Lmat == G_Int(desc.b \o <<2, N>>, desc.seed + 67)
Unsq(v) == T_Unsqueeze(v, -1)

Emit ==
  /\ pc = 1 /\ pc' = 2
  /\ LET A == dense
         dets == R_Dets(A)
         LX == LET X == R_Solve(A, Bmat) IN X     \* L A^{-1} B is formed by the harness from the exact A^{-1}B
     IN PrintT(ToJson([chk |-> "E2", desc |-> desc, path |-> Op_Path(term), term |-> term, dense |-> A,
          rhs |-> [vec |-> Bvec, mat |-> Bmat, bc |-> Bbc, lhs |-> Lmat],
          solve |-> [vec |-> R_Solve(A, Unsq(Bvec)), mat |-> R_Solve(A, Bmat), bc |-> R_Solve(A, Bbc)],
          dets |-> dets,
          inv_quad |-> [mat |-> R_InvQuad(A, Bmat), vec |-> R_InvQuad(A, Unsq(Bvec))]]))
  /\ UNCHANGED <<desc, term, dense>>
Next == Construct \/ Emit
Spec == Init /\ [][Next]_vars

\* the generated instances are symmetric positive definite (so that every query is defined): checked on every state
InvPD == (pc >= 1 /\ desc.cls # "Tri") => (T_IsSymmetric(dense) /\ \A k \in 1..T_Prod(T_Batch(dense.shape)) :
                        R_IsPD(R_Rows(dense, T_Unravel(k - 1, T_Batch(dense.shape)))))
=============================================================================
