------------------------------ MODULE MC_E2 ------------------------------
(***************************************************************************)
(* C04 / C05 - solve, log-determinant and inverse quadratic forms equal    *)
(* the exact values whichever algorithm the library selects.               *)
(*                                                                         *)
(* LOSelect: the method-selection predicates as a pure function of          *)
(* (class, size, configuration); TLC enumerates PD class x batch x rhs      *)
(* shapes x configuration, checks that every selection path is reachable    *)
(* in the enumerated space (PathsCovered, checked by the harness from the   *)
(* emitted labels) and computes the exact rational answers with LORational. *)
(***************************************************************************)
EXTENDS LOGen, LORational, Json

CONSTANTS Tier, Seed, Part, NParts

VARIABLES desc, term, dense, pc
vars == <<desc, term, dense, pc>>
N == 4
Cls == <<"Dense", "Diag", "ConstDiag", "Identity", "Toeplitz", "Chol", "Kron", "KronDiag", "KronAddedDiag", "SumKron", "AddedDiag",
         "LRRAddedDiag", "Sum", "PsdSum", "ConstMul", "BlockDiag", "BlockInter", "BatchRepeat", "Tri", "AddedDiagI", "LRRAddedDiagI", "User",
         "AddedDiagRootConst", "AddedDiagBig", "DenseBig", "KronCholU", "BlockDiagCholU", "CholKronTriU", "TriRepeat", "AddedDiagKBc", "KronAddedKronDiag", "MixedSpectrum", "BlockInterDiag", "CholDiag", "KronAddedKronConstDiag">>
\* matrix size per class: the "Big" families are large enough for CG / Lanczos to need more than 10 iterations
NOf(c) == IF c = "AddedDiagBig" THEN 24 ELSE IF c = "DenseBig" THEN 12 ELSE 4
Batches == << <<>>, <<2>> >>
DepthOf(c) == IF c \in G_LeafClasses THEN 0 ELSE 1

\* configurations: [max_chol (0 = force iterative paths, 800 = default), fast_solves, fast_log_prob, cg_tol_small, precond, memory_efficient]
Cfgs == { [max_chol |-> mc, fast_solves |-> fs, fast_log_prob |-> fl, cg_tol_small |-> ct, precond |-> pr, memory_efficient |-> me]
          : mc \in {0, 800}, fs \in BOOLEAN, fl \in BOOLEAN, ct \in BOOLEAN, pr \in BOOLEAN, me \in BOOLEAN }
CfgId(c) == (IF c.max_chol = 0 THEN 1 ELSE 0) + (IF c.fast_solves THEN 2 ELSE 0) + (IF c.fast_log_prob THEN 4 ELSE 0)
            + (IF c.cg_tol_small THEN 8 ELSE 0) + (IF c.precond THEN 16 ELSE 0) + (IF c.memory_efficient THEN 32 ELSE 0)

\* ---- LOSelect ------------------------------------------------------------------------------------------
SolvePath(cls, n, c) ==
  IF cls \in {"Chol", "Tri", "CholKronTriU", "TriRepeat", "CholDiag"} THEN "class-shortcut"
  ELSE IF ~c.fast_solves \/ n <= c.max_chol THEN "cholesky"
  ELSE IF c.precond THEN "cg+preconditioner-if-any" ELSE "cg"
LogdetPath(cls, n, c) ==
  IF n <= c.max_chol \/ ~c.fast_log_prob THEN "cholesky" ELSE "stochastic-lanczos-quadrature"

\* the "default" threshold of the large families is the matrix size itself: size = max_cholesky_size is still the direct path
\* (the boundary of the selection rule), and a wrong selection there is visible because the iterative paths are not exact on them
EffCfg(cls, c0) == IF cls \in {"AddedDiagBig", "DenseBig"} /\ c0.max_chol = 800 THEN [c0 EXCEPT !.max_chol = NOf(cls)] ELSE c0

Init ==
  /\ \E ci \in 1..Len(Cls), bi \in 1..Len(Batches), c0 \in Cfgs : LET c == EffCfg(Cls[ci], c0) IN
       /\ ((ci * 7 + bi + CfgId(c)) % NParts = Part)
       /\ (Cls[ci] = "MixedSpectrum" => Batches[bi] = <<2>>)
       /\ (Tier = "quick" => ((ci + bi + CfgId(c)) % 4 = 0 \/ CfgId(c) \in {0, 63 - 32, 3 + 4}
                              \/ (Cls[ci] \in {"AddedDiagRootConst", "AddedDiagBig", "DenseBig", "KronCholU", "BlockDiagCholU", "CholKronTriU", "AddedDiagKBc", "KronAddedKronDiag", "KronAddedKronConstDiag", "MixedSpectrum"} /\ CfgId(c) % 2 = 1 /\ ~c.memory_efficient)
                              \/ (Cls[ci] \in {"AddedDiagBig", "DenseBig"} /\ CfgId(c) \in {6, 14, 22})))
       /\ desc = [cls |-> Cls[ci], b |-> Batches[bi], cfg |-> c, cfgid |-> CfgId(c), id |-> (ci * 4 + bi) * 64 + CfgId(c),
                  dt |-> IF (ci + CfgId(c)) % 3 = 0 THEN "f32" ELSE "f64", seed |-> ci * 13 + bi * 5,
                  n |-> NOf(Cls[ci]),
                  \* rank bound of the pivoted-Cholesky preconditioner (0: library default); small for the large family so that the
                  \* preconditioned iteration still needs more than the 10 mandatory steps
                  prank |-> IF Cls[ci] = "AddedDiagBig" THEN 3 ELSE 0,
                  solve_path |-> SolvePath(Cls[ci], NOf(Cls[ci]), c), logdet_path |-> LogdetPath(Cls[ci], NOf(Cls[ci]), c)]
  /\ term = <<>> /\ dense = <<>> /\ pc = 0

Construct ==
  /\ pc = 0 /\ pc' = 1
  /\ term' = G_Term(desc.cls, desc.n, desc.n, desc.b, desc.seed, DepthOf(desc.cls), 1)
  /\ dense' = Op_Denote(term')
  /\ UNCHANGED desc

\* right-hand sides
Bvec == G_Int(<<desc.n>>, desc.seed + 61)
Bmat == G_Int(desc.b \o <<desc.n, 2>>, desc.seed + 63)
Bbc == G_Int(<<3>> \o [i \in 1..Len(desc.b) |-> 1] \o <<desc.n, 1>>, desc.seed + 65)        \* extra leading batch dim, broadcasting
Lmat == G_Int(desc.b \o <<2, desc.n>>, desc.seed + 67)
Unsq(v) == T_Unsqueeze(v, -1)

Emit ==
  /\ pc = 1 /\ pc' = 2
  /\ LET A == dense
     IN IF desc.n <= 4
        THEN PrintT(ToJson([chk |-> "E2", desc |-> desc, path |-> Op_Path(term), term |-> term, dense |-> A,
               rhs |-> [vec |-> Bvec, mat |-> Bmat, bc |-> Bbc, lhs |-> Lmat],
               solve |-> [vec |-> R_Solve(A, Unsq(Bvec)), mat |-> R_Solve(A, Bmat), bc |-> R_Solve(A, Bbc)],
               dets |-> R_Dets(A),
               inv_quad |-> [mat |-> R_InvQuad(A, Bmat), vec |-> R_InvQuad(A, Unsq(Bvec))]]))
        \* larger instances: the exact integer matrix and right-hand sides are given; the projection solves them densely in float64
        ELSE PrintT(ToJson([chk |-> "E2", desc |-> desc, path |-> Op_Path(term), term |-> term, dense |-> A,
               rhs |-> [vec |-> Bvec, mat |-> Bmat, bc |-> Bbc, lhs |-> Lmat], big |-> TRUE]))
  /\ UNCHANGED <<desc, term, dense>>
Next == Construct \/ Emit
Spec == Init /\ [][Next]_vars

\* the generated instances are symmetric positive definite (so that every query is defined): checked on every state
InvPD == (pc >= 1 /\ desc.cls \notin {"Tri", "TriRepeat"} /\ desc.n <= 4) => (T_IsSymmetric(dense) /\ \A k \in 1..T_Prod(T_Batch(dense.shape)) :
                        R_IsPD(R_Rows(dense, T_Unravel(k - 1, T_Batch(dense.shape)))))
=============================================================================
