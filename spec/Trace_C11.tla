----------------------------- MODULE Trace_C11 -----------------------------
(***************************************************************************)
(* Validation of recorded MINRES / contour-quadrature executions against    *)
(* the clauses of C11 (LOMinres).  kind = "minres": budgets 1..n+1 (tight   *)
(* tolerance: the iterates), then the call at the configured tolerance, the *)
(* rescaled call and the full-budget call.  kind = "ciq": the quadrature    *)
(* identities.  One total verdict per trace.                                *)
(***************************************************************************)
EXTENDS LOMinres, Json, IOUtils
Traces == JsonDeserialize(IOEnv.TRACE_FILE)
VARIABLES tid, l, fails, prev
vars == <<tid, l, fails, prev>>
Tr == Traces[tid]
Add(fs, ok, name) == IF ok THEN fs ELSE Append(fs, name)
NA == -99999
Init == tid \in 1..Len(Traces) /\ l = 0 /\ fails = <<>> /\ prev = 99999

\* MINRES minimises the (preconditioned) residual over a growing Krylov space: it never increases with the budget
Step ==
  /\ Tr.kind = "minres" /\ l < Len(Tr.runs)
  /\ LET run == Tr.runs[l + 1] cfg == Tr.cfg IN
       /\ fails' = Add(fails, (prev > cfg.lgfloor /\ l > 0) => run.res <= prev + 5, "residual-increases-with-budget@" \o ToString(run.m))
       /\ prev' = run.res
  /\ l' = l + 1 /\ UNCHANGED tid

RECURSIVE CtlRun(_, _, _, _)
CtlRun(cfg, s, obs, i) == IF s.phase # "loop" \/ i > Len(obs) THEN s ELSE CtlRun(cfg, MR_Step(cfg.n, cfg.max_iter, s, obs[i]), obs, i + 1)

FinishMinres ==
  /\ Tr.kind = "minres" /\ l = Len(Tr.runs)
  /\ LET cfg == Tr.cfg fin == Tr.final
         f1 == Add(fails, fin.shape_ok, "output-shape")
         f2 == Add(f1, fin.finite, "non-finite")
         f3 == Add(f2, fin.zero_ok, "zero-rhs-column-not-zero")
         f4 == Add(f3, fin.scale # NA => fin.scale <= -40000, "not-linear-in-rhs")
         \* at the configured tolerance: relative error within tolerance x (sqrt(kappa) + 1) x 10
         errOk == fin.err <= cfg.lgtol + cfg.lgk + 3322
         altOk == fin.erralt <= cfg.lgtol + cfg.lgk + 3322
         \* full budget and tight tolerance: the Krylov space is the whole space
         fullOk == fin.full <= MR_ExactThr(cfg.f32) + 2 * cfg.lgk
         fullAltOk == fin.fullalt <= MR_ExactThr(cfg.f32) + 2 * cfg.lgk
         \* with a preconditioner P and a non-zero shift the recurrence solves (K + s P) x = b; that the result is then not the
         \* solution of (K + s I) x = b is reported under its own name (see known_findings.txt) and anything else as an error
         \* (the code caps the iterations at n + 1 whatever max_iter says; a run that used them all never met its stopping rule: in
         \*  floating point that happens for ill-conditioned K, MINRES does not re-orthogonalise - reported under its own name)
         capped == fin.iters # NA /\ fin.iters >= cfg.n + 1
         f5 == Add(f4, (fin.finite /\ fin.err # NA) => (errOk \/ (cfg.pshift /\ altOk)),
                   IF capped THEN "not-converged-when-the-iteration-cap-n+1-is-reached" ELSE "error-above-stopping-tolerance")
         f5b == Add(f5, (fin.finite /\ fin.err # NA /\ cfg.pshift /\ altOk) => errOk, "preconditioned-shifted-system-solves-K+sP-not-K+sI")
         \* (demanded from floating point for condition numbers up to 100: lgk = lg(sqrt(kappa) + 1) <= 3460; MINRES does not
         \*  re-orthogonalise, and the code caps the iterations at n + 3)
         f6 == Add(f5b, (fin.full # NA /\ cfg.lgk <= 3460) => (fullOk \/ (cfg.pshift /\ fullAltOk)), "not-exact-at-full-budget")
         cs == CtlRun(cfg, [i |-> 0, phase |-> "loop"], fin.obs, 1)
         drift == fin.iters # NA /\ cs.phase # "loop" /\ cs.i # fin.iters
     IN /\ fails' = f6
        /\ PrintT(ToJson([tid |-> Tr.tid, fails |-> f6, drift |-> drift]))
  /\ l' = l + 1 /\ UNCHANGED <<tid, prev>>

FinishCiq ==
  /\ Tr.kind = "ciq" /\ l = 0
  /\ LET cfg == Tr.cfg fin == Tr.final
         thr == IF cfg.tight THEN (IF cfg.f32 THEN -9966 ELSE -16610) ELSE -7644      \* 1e-3 / 1e-5 ; 5e-3 at the default MINRES tolerance
         f1 == Add(fails, fin.shape_ok, "output-shape")
         f2 == Add(f1, fin.finite, "non-finite")
         f3 == Add(f2, fin.invsqrt # NA => fin.invsqrt <= thr, "weighted-solves-are-not-K^-1/2-b")
         f4 == Add(f3, fin.sqrt # NA => fin.sqrt <= thr, "weighted-solves-are-not-K^1/2-b")
         f5 == Add(f4, fin.twice # NA => fin.twice <= thr + 1000, "sqrt_inv_matmul-twice-is-not-the-solve")
         f6 == Add(f5, fin.left # NA => fin.left <= thr, "left-factor-variant")
         f7 == Add(f6, fin.leftdiag # NA => fin.leftdiag <= thr, "left-factor-inverse-quadratic-diagonal")
         f8 == Add(f7, fin.noshift # NA => fin.noshift <= thr, "unshifted-solve")
         \* M : b |-> weighted sum of the shifted solves satisfies M M^T = K^-1 (with or without a preconditioner)
         f9 == Add(f8, fin.gram # NA => fin.gram <= thr + 1000, "quadrature-root-gram-is-not-the-inverse")
         \* the same for the forward quadrature: b |-> weighted sum of K (shifted solves) satisfies M M^T = K (with or without a preconditioner)
         f10 == Add(f9, fin.gramsqrt # NA => fin.gramsqrt <= thr + 1000, "forward-quadrature-root-gram-is-not-the-matrix")
         \* contour-integral samples: documented shape, independent across draws and batch members, covariance K (measured by the recorder
         \* through the linear map from the injected noise to the samples)
         f11 == Add(f10, fin.sample_ok, "contour-integral-samples-do-not-have-covariance-K")
     IN /\ fails' = f11
        /\ PrintT(ToJson([tid |-> Tr.tid, fails |-> f11, drift |-> FALSE]))
  /\ l' = 1 /\ UNCHANGED <<tid, prev>>

Next == Step \/ FinishMinres \/ FinishCiq
Spec == Init /\ [][Next]_vars
=============================================================================
