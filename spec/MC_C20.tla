------------------------------ MODULE MC_C20 ------------------------------
(***************************************************************************)
(* C20 - utility kernels equal their dense definitions: case enumeration.  *)
(* One action per case: kernel x size x batch shapes (incl. broadcasting    *)
(* against the right-hand side) x rhs kind; the exact expected result is    *)
(* computed from LOUtils and logged.                                        *)
(***************************************************************************)
EXTENDS LOUtils, LOGen, Json

CONSTANTS Tier, Seed

VARIABLES case, done
vars == <<case, done>>
Kernels == <<"toeplitz", "sym_toeplitz", "toeplitz_getitem", "toeplitz_matmul", "sym_toeplitz_matmul", "toeplitz_deriv", "left_interp",
             "left_t_interp", "sparse_from_iv", "bdsmm", "sparse_getitem", "sparse_repeat", "to_sparse", "apply_permutation",
             "inverse_permutation", "qr", "pinverse", "dsmm">>
Sizes == 1..4
Bs == << <<>>, <<2>>, <<2, 1>>, <<1, 3>> >>
\* batch pairs (kernel data, rhs) that broadcast
BPairs == << <<<<>>, <<>>>>, <<<<2>>, <<2>>>>, <<<<2>>, <<>>>>, <<<<>>, <<2>>>>, <<<<2, 1>>, <<3>>>>, <<<<3>>, <<2, 1>>>>,
            <<<<2, 3>>, <<2, 3>>>>, <<<<3, 2>>, <<>>>> >>
RhsKinds == <<"vector", "matrix">>

Init ==
  /\ \E k \in 1..Len(Kernels), n \in Sizes, bp \in 1..Len(BPairs), rk \in 1..2, v \in 1..2 :
       /\ (Tier = "quick" => (k + n + bp + rk + v) % 2 = 0 \/ Kernels[k] \in {"toeplitz_matmul", "sparse_repeat", "left_t_interp"})
       /\ case = [kernel |-> Kernels[k], n |-> n, bk |-> BPairs[bp][1], br |-> BPairs[bp][2], rhs |-> RhsKinds[rk], v |-> v,
                  seed |-> k * 101 + n * 17 + bp * 5 + rk * 3 + v]
  /\ done = FALSE

Fmt(args, e) == PrintT(ToJson([chk |-> "C20", case |-> case, args |-> args, expect |-> e]))
None == T_Scalar(0)

Eval ==
  /\ ~done /\ done' = TRUE /\ UNCHANGED case
  /\ LET k == case.kernel n == case.n bk == case.bk br == case.br sd == case.seed
         vec == case.rhs = "vector"
         col == G_Int(bk \o <<n>>, sd)
         row0 == G_Int(bk \o <<n>>, sd + 1)
         \* the first row shares its first element with the first column
         row == T_Make(bk \o <<n>>, LAMBDA idx : IF idx[Len(idx)] = 0 THEN T_At(col, idx) ELSE T_At(row0, idx))
         X == IF vec THEN G_Int(<<n>>, sd + 2) ELSE G_Int(br \o <<n, 2>>, sd + 2)
         m == 1 + (sd % 3)                                                 \* interpolation grid size / other dimension
         p == 1 + (case.v % 2)
         ix == G_InterpIdx(n, p, m, bk, sd)
         iv == G_Small(bk \o <<n, p>>, sd + 3)
         Xm == IF vec THEN G_Int(<<m>>, sd + 2) ELSE G_Int(br \o <<m, 2>>, sd + 2)
         M == G_Int(bk \o <<n, m>>, sd + 4)
         Sq == G_Int(bk \o <<n, n>>, sd + 4)
     IN CASE k = "toeplitz" -> (IF bk = <<>> THEN Fmt([c |-> col, r |-> row], Op_ToeplitzGeneral(col, row)) ELSE TRUE)
          [] k = "sym_toeplitz" -> (IF bk = <<>> THEN Fmt([c |-> col], Op_ToeplitzDense(col)) ELSE TRUE)
          [] k = "toeplitz_getitem" -> (IF bk = <<>> THEN Fmt([c |-> col, r |-> row], Op_ToeplitzGeneral(col, row)) ELSE TRUE)
          [] k = "toeplitz_matmul" -> Fmt([c |-> col, r |-> row, x |-> X], T_MatMulAny(Op_ToeplitzGeneral(col, row), X))
          [] k = "sym_toeplitz_matmul" -> Fmt([c |-> col, x |-> X], T_MatMulAny(Op_ToeplitzDense(col), X))
          [] k = "toeplitz_deriv" ->
               LET U == G_Small(bk \o <<n, p>>, sd + 5) V == G_Small(bk \o <<n, p>>, sd + 6)
               IN Fmt([u |-> U, v |-> V], U_ToepDerivQuad(U, V))
          [] k = "left_interp" -> Fmt([ix |-> ix, iv |-> iv, x |-> Xm, m |-> m], U_LeftInterp(ix, iv, Xm, m))
          [] k = "left_t_interp" -> Fmt([ix |-> ix, iv |-> iv, x |-> X, m |-> m], U_LeftTInterp(ix, iv, X, m))
          [] k = "sparse_from_iv" -> Fmt([ix |-> ix, iv |-> iv, m |-> m], U_SparseFromIV(ix, iv, m))
          [] k \in {"bdsmm", "dsmm"} ->
               LET S == T_Mul(M, T_Fill(bk \o <<n, m>>, sd + 7, 0, 1)) Xd == G_Int(br \o <<m, 2>>, sd + 2)
               IN Fmt([s |-> S, x |-> Xd], T_MatMul(S, Xd))
          [] k = "sparse_getitem" ->
               LET S == T_Mul(G_Int(<<n, m>>, sd + 4), T_Fill(<<n, m>>, sd + 7, 0, 1)) IN Fmt([s |-> S], S)
          [] k = "sparse_repeat" ->
               LET S == T_Mul(M, T_Fill(bk \o <<n, m>>, sd + 7, 0, 1))
                   reps == IF case.v = 1 THEN [i \in 1..Len(S.shape) |-> IF i = 1 THEN 2 ELSE 1]
                           ELSE <<2>> \o [i \in 1..Len(S.shape) |-> IF i = Len(S.shape) THEN 2 ELSE 1]
               IN Fmt([s |-> S, reps |-> reps], T_Repeat(S, reps))
          [] k = "to_sparse" -> LET S == T_Mul(M, T_Fill(bk \o <<n, m>>, sd + 7, 0, 1)) IN Fmt([s |-> S], S)
          [] k = "apply_permutation" ->
               LET L == G_PermT(n, IF case.v = 1 THEN <<>> ELSE bk, sd) R == G_PermT(n, bk, sd + 1)
               IN Fmt([m |-> Sq, left |-> L, right |-> R], U_ApplyPerm(Sq, L, R))
          [] k = "inverse_permutation" -> LET P == G_PermT(n, bk, sd) IN Fmt([p |-> P], U_InvPerm(P))
          [] k \in {"qr", "pinverse"} ->
               \* tall / square / fat integer matrices with full rank: identity-dominated
               LET rws == IF case.v = 1 THEN n + (sd % 2) ELSE n cls == IF case.v = 1 THEN n ELSE n + (sd % 2)
                   A0 == T_Add(G_Small(bk \o <<rws, cls>>, sd), T_Make(bk \o <<rws, cls>>, LAMBDA idx :
                            IF idx[Len(idx) - 1] = idx[Len(idx)] THEN 5 ELSE 0))
                   \* every third case has an exactly zero column (an exactly zero pivot: the stabilisation must keep the result finite)
                   zc == sd % 3 = 0
                   A == IF zc THEN T_Make(A0.shape, LAMBDA idx : IF idx[Len(idx)] = (sd % cls) THEN 0 ELSE T_At(A0, idx)) ELSE A0
               IN Fmt([a |-> A, zero_col |-> zc], A)
Next == Eval
Spec == Init /\ [][Next]_vars
=============================================================================
