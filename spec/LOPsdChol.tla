----------------------------- MODULE LOPsdChol -----------------------------
(***************************************************************************)
(* C16 - psd_safe_cholesky perturbs minimally, per batch member, or fails   *)
(* loudly.                                                                  *)
(*                                                                         *)
(* Batch members are small symmetric *integer* matrices and the jitter is   *)
(* the integer J, so "Cholesky succeeds on A + j I" is decided exactly      *)
(* (all leading principal minors > 0) in TLA+ and in IEEE arithmetic.       *)
(*                                                                         *)
(* S-layer: each member independently gets the smallest jitter J * 10^i,    *)
(*   i < MaxTries, that makes it positive definite (0 if it already is);    *)
(*   NaN input -> NanError; a member with no such i -> NotPSDError.         *)
(* M-layer: the retry loop of utils/cholesky.py: one cholesky_ex attempt    *)
(*   per action, jitter added as the *difference* to the previous try and    *)
(*   only where the latest info code is positive.                           *)
(*   Variant = "code" is the implementation; the other variants are          *)
(*   realistic slips used as non-vacuity self-tests (must be rejected).      *)
(***************************************************************************)
EXTENDS Integers, Sequences, FiniteSets, TLC, Json

CONSTANTS MaxBatch,   \* maximal number of batch members
          Variant,    \* "code" | "frozen_mask" | "add_full" | "all_members" | "extra_try"
          Emit

VARIABLE jb           \* base jitter of this call: 1, or 0 (an explicit zero: nothing is ever added, a non-PD member cannot be repaired)
J == jb
\* ---- member kinds: 2x2 [[a, b], [b, a]] and a 3x3 one; NaN is encoded by kind ---------------------
Kinds == <<"pd", "pd3", "singular", "indef1", "indef2", "hopeless", "nan", "singular3">>
\* matrices as sequences of rows
Mat(k) ==
  CASE k = "pd" -> <<<<2, 1>>, <<1, 2>>>>
    [] k = "pd3" -> <<<<4, 1, 0>>, <<1, 3, 1>>, <<0, 1, 2>>>>
    [] k = "singular" -> <<<<1, 1>>, <<1, 1>>>>              \* needs J
    [] k = "singular3" -> <<<<1, 1, 0>>, <<1, 1, 0>>, <<0, 0, 5>>>>
    [] k = "indef1" -> <<<<1, 3>>, <<3, 1>>>>                \* eigenvalues 4, -2: needs 10 J
    [] k = "indef2" -> <<<<1, 21>>, <<21, 1>>>>              \* eigenvalues 22, -20: needs 100 J
    [] k = "hopeless" -> <<<<1, 2000>>, <<2000, 1>>>>        \* never within 3 tries
    [] k = "nan" -> <<<<1, 0>>, <<0, 1>>>>                    \* entry [0][1] replaced by NaN in the binding

Det2(M) == M[1][1] * M[2][2] - M[1][2] * M[2][1]
Det3(M) == M[1][1] * (M[2][2] * M[3][3] - M[2][3] * M[3][2]) - M[1][2] * (M[2][1] * M[3][3] - M[2][3] * M[3][1])
           + M[1][3] * (M[2][1] * M[3][2] - M[2][2] * M[3][1])
AddJ(M, j) == [r \in 1..Len(M) |-> [c \in 1..Len(M) |-> M[r][c] + (IF r = c THEN j ELSE 0)]]
\* exact positive definiteness: leading principal minors
IsPD(M) == /\ M[1][1] > 0
           /\ Det2(<<<<M[1][1], M[1][2]>>, <<M[2][1], M[2][2]>>>>) > 0
           /\ (Len(M) = 3 => Det3(M) > 0)
CholOk(k, j) == k # "nan" /\ IsPD(AddJ(Mat(k), j))

RECURSIVE Pow10(_)
Pow10(i) == IF i = 0 THEN 1 ELSE 10 * Pow10(i - 1)

\* ---- S-layer --------------------------------------------------------------------------------------
IdealJitter(k, maxTries) ==      \* -1 = cannot be repaired
  IF CholOk(k, 0) THEN 0
  ELSE IF \E i \in 0..(maxTries - 1) : CholOk(k, J * Pow10(i))
       THEN J * Pow10(CHOOSE i \in 0..(maxTries - 1) : CholOk(k, J * Pow10(i)) /\ \A h \in 0..(i - 1) : ~CholOk(k, J * Pow10(h)))
       ELSE -1
IdealOutcome(ms, maxTries) ==
  IF \A b \in 1..Len(ms) : CholOk(ms[b], 0) THEN "ok"           \* note: a NaN member fails the first attempt
  ELSE IF \E b \in 1..Len(ms) : ms[b] = "nan" THEN "nan"
  ELSE IF \E b \in 1..Len(ms) : IdealJitter(ms[b], maxTries) = -1 THEN "notpsd"
  ELSE "ok"

\* ---- M-layer: the retry loop ------------------------------------------------------------------------
VARIABLES ms,        \* member kinds of this call
          maxTries, upper,
          jit,       \* member -> jitter on the diagonal of Aprime so far
          info,      \* member -> last attempt failed
          mask0,     \* (frozen_mask variant) the info of the first attempt
          i,         \* next try index
          st,        \* "init" | "loop" | "ok" | "nan" | "notpsd"
          nwarn, hist
vars == <<ms, maxTries, upper, jit, info, mask0, i, st, nwarn, hist, jb>>

Batches == UNION { [1..n -> {Kinds[k] : k \in 1..Len(Kinds)}] : n \in 1..MaxBatch }
SameSize(b) == \A x, y \in 1..Len(b) : Len(Mat(b[x])) = Len(Mat(b[y]))

Init == /\ ms \in {b \in Batches : SameSize(b)}
        /\ maxTries \in 1..3 /\ upper \in {0, 1} /\ jb \in {0, 1}
        /\ jit = [b \in 1..Len(ms) |-> 0] /\ info = [b \in 1..Len(ms) |-> FALSE] /\ mask0 = info
        /\ i = 0 /\ st = "init" /\ nwarn = 0 /\ hist = <<>>

Attempt(j) == [b \in 1..Len(ms) |-> ~CholOk(ms[b], j[b])]
LogA == hist' = Append(hist, [try |-> i, jit |-> jit', info |-> info'])

First ==
  /\ st = "init"
  /\ info' = Attempt(jit) /\ mask0' = info' /\ jit' = jit
  /\ hist' = Append(hist, [try |-> -1, jit |-> jit, info |-> info'])
  /\ IF \A b \in 1..Len(ms) : ~info'[b] THEN st' = "ok"
     ELSE IF \E b \in 1..Len(ms) : ms[b] = "nan" THEN st' = "nan"
     ELSE st' = "loop"
  /\ UNCHANGED <<ms, maxTries, upper, i, nwarn, jb>>

Tries == IF Variant = "extra_try" THEN maxTries + 1 ELSE maxTries

Retry ==
  /\ st = "loop" /\ i < Tries
  /\ LET jnew == J * Pow10(i)
         jprev == IF i = 0 THEN 0 ELSE J * Pow10(i - 1)
         delta == IF Variant = "add_full" THEN jnew ELSE jnew - jprev
         m == IF Variant = "frozen_mask" THEN mask0 ELSE info
     IN jit' = [b \in 1..Len(ms) |-> IF m[b] \/ Variant = "all_members" THEN jit[b] + delta ELSE jit[b]]
  /\ info' = Attempt(jit')
  /\ nwarn' = nwarn + 1
  /\ i' = i + 1
  /\ LogA
  /\ st' = IF \A b \in 1..Len(ms) : ~info'[b] THEN "ok" ELSE "loop"
  /\ UNCHANGED <<ms, maxTries, upper, mask0, jb>>

GiveUp == /\ st = "loop" /\ i >= Tries /\ st' = "notpsd"
          /\ UNCHANGED <<ms, maxTries, upper, jit, info, mask0, i, nwarn, hist, jb>>

Next == First \/ Retry \/ GiveUp
Spec == Init /\ [][Next]_vars

Done == st \in {"ok", "nan", "notpsd"}
\* ---- refinement: the loop's outcome is the ideal one ---------------------------------------------
RefinesOutcome == Done => st = IdealOutcome(ms, maxTries)
RefinesJitter == (st = "ok") => \A b \in 1..Len(ms) : jit[b] = IdealJitter(ms[b], maxTries)
\* a returned factor is a factor of a positive definite matrix: no member is still failing
NoBadFactor == (st = "ok") => \A b \in 1..Len(ms) : CholOk(ms[b], jit[b])
\* jitter only ever lands on members that failed, and never shrinks
MonotoneJitter == [][\A b \in 1..Len(ms) : jit'[b] >= jit[b] /\ (jit'[b] > jit[b] => info[b] \/ Variant # "code")]_vars
WarnIffJitter == Done => ((nwarn > 0) <=> (\E b \in 1..Len(ms) : jit[b] > 0) \/ st = "notpsd")

EmitInv == (Emit /\ Done) => PrintT(ToJson([ms |-> ms, mats |-> [b \in 1..Len(ms) |-> Mat(ms[b])], max_tries |-> maxTries, upper |-> upper, jbase |-> jb, outcome |-> st,
                                           jit |-> jit, nwarn |-> nwarn, attempts |-> hist]))
=============================================================================
