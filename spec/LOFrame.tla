------------------------------ MODULE LOFrame ------------------------------
(***************************************************************************)
(* C13 - no operation mutates caller-owned tensors.                         *)
(*                                                                         *)
(* Abstract memory model: a *cell* is a storage; every tensor value is a    *)
(* view of exactly one cell.  Caller-owned cells carry a version counter    *)
(* (torch's tensor._version) that every in-place write to the cell or any   *)
(* view of it increments.  Frame condition (S-layer): a library call leaves *)
(* the version and contents of every caller-owned cell unchanged.           *)
(*                                                                         *)
(* M-layer: the buffer handling of the solvers is transcribed as straight-  *)
(* line programs over a small set of tensor primitives whose aliasing        *)
(* behaviour depends on the *layout* of the caller's argument:              *)
(*   view ops (unsqueeze, expand, expand_as, diagonal, mT, narrow)  alias   *)
(*   .contiguous()   aliases iff its input is already contiguous            *)
(*   .clone(), out-of-place arithmetic (div, sub, matmul, ...)      fresh   *)
(*   in-place ops (div_, masked_fill_, add_, copy_, mul_, scatter_) write   *)
(* TLC executes each program for every layout of every caller argument and  *)
(* checks that no write lands in a caller-owned cell (NoCallerWrite).       *)
(* The variants without a defensive clone are realistic slips that must be  *)
(* rejected (non-vacuity).                                                  *)
(*                                                                         *)
(* The same enumeration (operation x argument role x layout) is printed as  *)
(* JSON cases for the conformance pass, which performs the real call and    *)
(* compares _version and a bitwise copy of every caller tensor.             *)
(***************************************************************************)
EXTENDS Integers, Sequences, FiniteSets, TLC, Json

CONSTANTS Variant     \* "code" | "cg_inplace_guess" | "chol_no_clone" | "pivchol_no_clone" | "cg_inplace_rhs"

Layouts == {"contig", "expanded", "transposed", "slice", "vector"}
\* is a tensor with this layout contiguous and full-shape (so that .contiguous() / expand_as(..).contiguous() return it)?
IsContig(l) == l \in {"contig", "vector"}

\* statements: [op, dst, src]; values are [cell, contig]
\* primitives
Alias == {"unsqueeze", "expand_as", "diagonal", "mT", "narrow", "view"}
Fresh == {"clone", "div", "sub", "matmul", "norm", "zeros_like", "mul", "lt"}
Writes == {"div_", "masked_fill_", "add_", "copy_", "mul_", "scatter_", "addcmul_", "resize_"}

\* ---- programs (dst <- op(src)); caller arguments are bound to names in `args` --------------------
\* utils/linear_cg.py: prologue and the in-place kernels of the loop
ProgCG ==
  << [op |-> "unsqueeze", dst |-> "rhs", src |-> "rhs"],                 \* if is_vector (alias either way)
     [op |-> "unsqueeze", dst |-> "guess", src |-> "guess"],
     [op |-> "norm", dst |-> "rhs_norm", src |-> "rhs"],
     [op |-> "lt", dst |-> "rhs_is_zero", src |-> "rhs_norm"],
     [op |-> "masked_fill_", dst |-> "rhs_norm", src |-> "rhs_is_zero"],
     [op |-> IF Variant = "cg_inplace_rhs" THEN "div_" ELSE "div", dst |-> "rhs", src |-> "rhs"],
     IF Variant = "cg_inplace_guess"
       THEN [op |-> "view", dst |-> "guess", src |-> "guess"]            \* slip: the out-of-place div is dropped
       ELSE [op |-> "div", dst |-> "guess", src |-> "guess"],
     [op |-> "matmul", dst |-> "Ax0", src |-> "guess"],
     [op |-> "sub", dst |-> "residual", src |-> "rhs"],
     [op |-> "expand_as", dst |-> "result", src |-> "guess"],
     [op |-> "contiguous", dst |-> "result", src |-> "result"],
     IF Variant = "cg_inplace_guess" THEN [op |-> "div_", dst |-> "result", src |-> "rhs_norm"]
                                    ELSE [op |-> "norm", dst |-> "residual_norm", src |-> "residual"],
     [op |-> "clone", dst |-> "precond_residual", src |-> "residual"],   \* default preconditioner clones
     [op |-> "view", dst |-> "curr_conjugate_vec", src |-> "precond_residual"],
     [op |-> "matmul", dst |-> "mvms", src |-> "curr_conjugate_vec"],
     [op |-> "addcmul_", dst |-> "result", src |-> "curr_conjugate_vec"],
     [op |-> "addcmul_", dst |-> "residual", src |-> "mvms"],
     [op |-> "mul_", dst |-> "curr_conjugate_vec", src |-> "beta"],
     [op |-> "add_", dst |-> "curr_conjugate_vec", src |-> "precond_residual"],
     [op |-> "mul", dst |-> "out", src |-> "result"] >>                  \* result.mul(rhs_norm): un-normalise out of place

\* utils/cholesky.py
ProgChol ==
  << [op |-> "matmul", dst |-> "L", src |-> "A"],                        \* cholesky_ex: fresh output
     IF Variant = "chol_no_clone" THEN [op |-> "view", dst |-> "Aprime", src |-> "A"]
                                 ELSE [op |-> "clone", dst |-> "Aprime", src |-> "A"],
     [op |-> "diagonal", dst |-> "dg", src |-> "Aprime"],
     [op |-> "add_", dst |-> "dg", src |-> "jitter"],
     [op |-> "matmul", dst |-> "L", src |-> "Aprime"] >>

\* functions/_pivoted_cholesky.py: the diagonal may share storage with the operator's tensors
ProgPivChol ==
  << [op |-> "diagonal", dst |-> "matrix_diag", src |-> "A"],            \* _approx_diagonal(): may be a view
     IF Variant = "pivchol_no_clone" THEN [op |-> "view", dst |-> "matrix_diag", src |-> "matrix_diag"]
                                    ELSE [op |-> "clone", dst |-> "matrix_diag", src |-> "matrix_diag"],
     [op |-> "zeros_like", dst |-> "L", src |-> "A"],
     [op |-> "narrow", dst |-> "L_m", src |-> "L"],
     [op |-> "scatter_", dst |-> "L_m", src |-> "matrix_diag"],
     [op |-> "sub", dst |-> "row", src |-> "A"],
     [op |-> "addcmul_", dst |-> "matrix_diag", src |-> "L_m"],
     [op |-> "masked_fill_", dst |-> "matrix_diag", src |-> "L_m"] >>

\* utils/lanczos.py: the start vectors are normalised out of place, q_mat is a fresh buffer
ProgLanczos ==
  << [op |-> "norm", dst |-> "nrm", src |-> "init"],
     [op |-> "div", dst |-> "q0", src |-> "init"],
     [op |-> "zeros_like", dst |-> "q_mat", src |-> "q0"],
     [op |-> "narrow", dst |-> "q_mat0", src |-> "q_mat"],
     [op |-> "copy_", dst |-> "q_mat0", src |-> "q0"],
     [op |-> "matmul", dst |-> "r_vec", src |-> "q0"],
     [op |-> "addcmul_", dst |-> "r_vec", src |-> "q0"],
     [op |-> "div_", dst |-> "r_vec", src |-> "nrm"] >>

Progs == [cg |-> ProgCG, chol |-> ProgChol, pivchol |-> ProgPivChol, lanczos |-> ProgLanczos]
Args == [cg |-> {"rhs", "guess"}, chol |-> {"A"}, pivchol |-> {"A"}, lanczos |-> {"init"}]
ProgNames == {"cg", "chol", "pivchol", "lanczos"}

VARIABLES prog, layout, env, pc, written
\* env: name -> [cell |-> caller arg name or "local", contig |-> BOOLEAN]
vars == <<prog, layout, env, pc, written>>

Init ==
  /\ prog \in ProgNames
  /\ layout \in [Args[prog] -> Layouts]
  /\ env = [a \in Args[prog] |-> [cell |-> a, contig |-> IsContig(layout[a])]]
  /\ pc = 1 /\ written = {}

Bound(nm) == nm \in DOMAIN env
Val(nm) == IF Bound(nm) THEN env[nm] ELSE [cell |-> "local", contig |-> TRUE]

Step ==
  /\ pc <= Len(Progs[prog])
  /\ LET s == Progs[prog][pc] v == Val(s.src) d == Val(s.dst)
         newv == CASE s.op \in Alias -> [cell |-> v.cell, contig |-> IF s.op \in {"mT", "narrow", "diagonal"} THEN FALSE ELSE v.contig]
                   [] s.op = "contiguous" -> IF v.contig THEN v ELSE [cell |-> "local", contig |-> TRUE]
                   [] s.op \in Fresh -> [cell |-> "local", contig |-> TRUE]
                   [] OTHER -> d
     IN /\ env' = IF s.op \in Writes THEN env
                  ELSE [x \in (DOMAIN env) \cup {s.dst} |-> IF x = s.dst THEN newv ELSE env[x]]
        /\ written' = IF s.op \in Writes THEN written \cup {d.cell} ELSE written
  /\ pc' = pc + 1
  /\ UNCHANGED <<prog, layout>>

\* expand_as of a full-shape contiguous tensor is that tensor: .contiguous() then returns the caller's storage
\* (modelled by keeping `contig` through expand_as when the source is full shape)
Next == Step
Spec == Init /\ [][Next]_vars

NoCallerWrite == written \subseteq {"local"}
=============================================================================
