---------------------------- MODULE LOAlgebra ----------------------------
(***************************************************************************)
(* The public algebra of linear_operator as functions on denotations       *)
(* (property C02): every operation must commute with Op_Denote, whatever    *)
(* specialised result class the library picks.  Validity predicates give    *)
(* torch's verdict on the dense operands (property C19).                    *)
(***************************************************************************)
EXTENDS LOGen

\* ---- binary, torch broadcasting semantics -------------------------------
Al_AddOk(sa, sb) == T_BCompat(sa, sb)
Al_Add(a, b) == T_Add(a, b)
Al_Sub(a, b) == T_Sub(a, b)
Al_MulElem(a, b) == T_Mul(a, b)
Al_MatMul(a, b) == T_MatMulAny(a, b)

\* ---- scalars: c is a tensor of shape <<>>, <<1>>, or batch \o <<1,1>> ------
Al_ScalarMul(a, c) == T_Mul(a, c)

\* ---- batch manipulation --------------------------------------------------
\* expand to `sizes` (-1 keeps the size), new leading dims allowed
Al_ExpandShape(s, sizes) ==
  LET off == Len(sizes) - Len(s)
  IN [i \in 1..Len(sizes) |-> IF sizes[i] = -1 THEN s[i - off] ELSE sizes[i]]
Al_ExpandOk(s, sizes) ==
  /\ Len(sizes) >= Len(s)
  /\ LET off == Len(sizes) - Len(s)
     IN \A i \in 1..Len(sizes) :
          IF i <= off THEN sizes[i] >= 1
          ELSE sizes[i] = -1 \/ sizes[i] = s[i - off] \/ (s[i - off] = 1 /\ sizes[i] >= 1)
Al_Expand(a, sizes) == T_Expand(a, Al_ExpandShape(a.shape, sizes))
Al_Repeat(a, reps) == T_Repeat(a, reps)
Al_Unsqueeze(a, d) == T_Unsqueeze(a, d)
Al_Squeeze(a, d) == T_Squeeze(a, d)
Al_Permute(a, perm) == T_Permute(a, [i \in 1..Len(perm) |-> IF perm[i] < 0 THEN Len(perm) + perm[i] ELSE perm[i]])
Al_Sum(a, d) == T_SumDim(a, d)
Al_Prod(a, d) == T_ProdDim(a, d)
Al_Transpose(a, d1, d2) == T_SwapDims(a, d1, d2)

\* ---- diagonal / low-rank updates -----------------------------------------
\* add_diagonal(diag): diag of shape <<>>, <<1>>, <<n>>, b \o <<1>>, b \o <<n>> (broadcast against batch \o <<n>>)
Al_AddDiagonal(a, d) ==
  LET n == T_Last(a.shape) bn == T_DropLast(a.shape)
      dd == IF T_Rank(d) = 0 THEN T_Expand(d, <<n>>) ELSE IF T_Last(d.shape) = 1 THEN T_Expand(d, T_DropLast(d.shape) \o <<n>>) ELSE d
  IN T_Add(a, T_DiagEmbed(dd))
Al_AddLowRank(a, v) == T_Add(a, T_MatMul(v, T_Transpose(v)))
\* cat_rows(cross (k x n), new (k x k)):  [[A, cross^T], [cross, new]]
Al_CatRows(a, cross, new) ==
  T_Cat(<<T_Cat(<<a, T_Transpose(cross)>>, -1), T_Cat(<<cross, new>>, -1)>>, -2)
=============================================================================
