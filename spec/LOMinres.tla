----------------------------- MODULE LOMinres -----------------------------
(***************************************************************************)
(* C11 - MINRES for shifted systems and contour-integral quadrature.        *)
(*                                                                         *)
(* (1) SHAPES.  minres(matmul, rhs, shifts) solves (K + s I) x = b for a    *)
(*     whole batch of shifts.  MR_OutShape is the documented output shape:  *)
(*     [shift dimension iff several shifts] + broadcast batch + [n] + [c    *)
(*     iff the right-hand side is a matrix].  MC_C11 enumerates operator    *)
(*     batch x right-hand side x shift shapes with the expected shape.      *)
(* (2) CONTROL.  The loop runs at most min(max_iter, n + 1) + 2 iterations  *)
(*     and tests convergence (mean relative update below minres_tolerance)  *)
(*     only at iterations 10, 20, ...; TLC checks the control invariants    *)
(*     over all observation sequences.                                      *)
(* (3) CLAUSES over recorded executions (lg-encoded magnitudes), evaluated  *)
(*     by TLC in Trace_C11.                                                 *)
(***************************************************************************)
EXTENDS Integers, Sequences, FiniteSets, TLC

CONSTANTS MrVariant    \* "code" | "check_every_iteration" | "no_extra_iterations" | "keeps_shift_dim"

Min2(a, b) == IF a < b THEN a ELSE b
RECURSIVE SeqProd(_)
SeqProd(s) == IF Len(s) = 0 THEN 1 ELSE s[1] * SeqProd(Tail(s))
Max2(a, b) == IF a > b THEN a ELSE b
\* right-aligned broadcast of two batch shapes (assumed compatible)
PadL(s, k) == [i \in 1..(k - Len(s)) |-> 1] \o s
Bcast(a, b) == LET k == Max2(Len(a), Len(b)) x == PadL(a, k) y == PadL(b, k) IN [i \in 1..k |-> Max2(x[i], y[i])]

\* ---- (1) shapes ------------------------------------------------------------------------------------------
\* opb: operator batch; rhs: [batch, cols] with cols = 0 for a vector; shifts: shape of the shift tensor, <<>> = 0-d, "none" = not given
MR_OutShape(opb, n, rhs, shifts) ==
  LET nshift == IF shifts = <<-1>> THEN 1 ELSE SeqProd(shifts)
      S == IF shifts = <<-1>> \/ Len(shifts) = 0 THEN 1 ELSE shifts[1]
      sb == IF shifts = <<-1>> \/ Len(shifts) <= 1 THEN <<>> ELSE Tail(shifts)
      batch == Bcast(Bcast(opb, rhs.batch), sb)
      lead == IF MrVariant = "keeps_shift_dim" THEN <<S>> ELSE IF nshift > 1 THEN <<S>> ELSE <<>>
  IN lead \o batch \o <<n>> \o (IF rhs.cols = 0 THEN <<>> ELSE <<rhs.cols>>)

\* ---- (2) control ------------------------------------------------------------------------------------------
MR_Budget(n, max_iter) == Min2(max_iter, n + 1) + (IF MrVariant = "no_extra_iterations" THEN 0 ELSE 2)
MR_IsCheck(i) == IF MrVariant = "check_every_iteration" THEN TRUE ELSE (i + 1) % 10 = 0
\* state [i (iterations done), phase]; obs: converged (mean relative update < tolerance) after iteration i
MR_Step(n, max_iter, s, conv) ==
  IF MR_IsCheck(s.i) /\ conv THEN [i |-> s.i + 1, phase |-> "converged"]
  ELSE IF s.i + 1 = MR_Budget(n, max_iter) THEN [i |-> s.i + 1, phase |-> "budget"]
  ELSE [i |-> s.i + 1, phase |-> "loop"]

\* ---- (3) clause thresholds (lg = round(1000 log2)) -----------------------------------------------------------
MR_ExactThr(f32) == IF f32 THEN -9966 ELSE -23253         \* 1e-3 / 1e-7 x condition number: full budget, tight tolerance
=============================================================================
