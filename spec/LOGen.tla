------------------------------ MODULE LOGen ------------------------------
(***************************************************************************)
(* Instance families: for every operator class, build a term of that class *)
(* with a prescribed matrix shape (m x n), batch shape b, nesting depth and *)
(* seed.  mode = 0: arbitrary integer entries; mode = 1: symmetric positive *)
(* definite (diagonally dominant / M M^T + I / positive diagonals), so that *)
(* inverse-type queries have exact rational answers (LORational).          *)
(*                                                                         *)
(* Only the *values* are sampled (seeded palettes); the structural space    *)
(* class x size x batch x nesting is enumerated by the MC_* modules.        *)
(***************************************************************************)
EXTENDS LOOperators

G_Pick(list, seed) == list[(seed % Len(list)) + 1]

\* ---- batch-shape helpers -------------------------------------------------
\* a shape that broadcasts (with b) to b: seed decides which dims are 1 / dropped
G_BcShape(b, seed) ==
  IF Len(b) = 0 THEN <<>>
  ELSE LET k == seed % 3
       IN IF k = 0 THEN b
          ELSE IF k = 1 THEN [i \in 1..Len(b) |-> IF i = 1 THEN 1 ELSE b[i]]
          ELSE Tail(b)

\* ---- leaf tensors --------------------------------------------------------
G_Int(s, seed) == T_Fill(s, seed, -3, 4)
G_Small(s, seed) == T_Fill(s, seed, -2, 2)
G_Pos(s, seed) == T_Fill(s, seed, 1, 4)

\* symmetric positive definite dense (b, n, n): M M^T + I with M entries in -2..2
G_PdDense(n, b, seed) ==
  LET M == G_Small(b \o <<n, n>>, seed)
  IN T_Add(T_MatMul(M, T_Transpose(M)), T_EyeB(b, n))

\* lower-triangular with positive diagonal (b, n, n)
G_LowerTri(n, b, seed) ==
  LET nb == Len(b) F == G_Small(b \o <<n, n>>, seed)
  IN T_Make(b \o <<n, n>>, LAMBDA idx :
       LET i == idx[nb + 1] j == idx[nb + 2]
       IN IF i = j THEN 1 + (T_Abs(T_At(F, idx)) % 2) ELSE IF j < i THEN T_At(F, idx) ELSE 0)

\* Toeplitz first column, strictly diagonally dominant in mode 1
G_ToepCol(n, b, seed, mode) ==
  LET nb == Len(b) F == IF mode = 1 THEN T_Fill(b \o <<n>>, seed, -1, 1) ELSE G_Int(b \o <<n>>, seed)
  IN IF mode = 1 THEN T_Make(b \o <<n>>, LAMBDA idx : IF idx[nb + 1] = 0 THEN 2 * n + 1 ELSE T_At(F, idx)) ELSE F

\* a permutation of 0..n-1 per batch member: rotation by (seed + flat batch index) composed with a swap
G_PermT(n, b, seed) ==
  LET nb == Len(b)
  IN T_Make(b \o <<n>>, LAMBDA idx :
       LET r == (seed + T_Ravel(SubSeq(idx, 1, nb), b)) % n
           i == idx[nb + 1]
           j == (i + r) % n
       IN IF n >= 3 /\ j = 0 THEN 1 ELSE IF n >= 3 /\ j = 1 THEN 0 ELSE j)

\* interpolation indices (b, n, k) into 0..m-1, with duplicates inside a row when seed is odd
G_InterpIdx(n, k, m, b, seed) ==
  LET nb == Len(b)
  IN T_Make(b \o <<n, k>>, LAMBDA idx :
       LET i == idx[nb + 1] a == idx[nb + 2] fb == T_Ravel(SubSeq(idx, 1, nb), b)
       IN IF seed % 2 = 1 /\ a = 1 THEN (i + fb + seed) % m          \* duplicates the a = 0 entry
          ELSE (i + a + fb + seed) % m)

\* boolean mask of length len with exactly cnt ones (positions depend on the seed)
G_Mask(len, cnt, seed) ==
  LET off == seed % len
  IN T_Make(<<len>>, LAMBDA idx : IF ((idx[1] + off) % len) < cnt THEN 1 ELSE 0)

\* a divisor pair of m chosen by seed
G_Divs(m) == {d \in 1..m : m % d = 0}
G_Factor(m, seed) ==
  LET ds == G_Divs(m) k == Cardinality(ds)
      ord == CHOOSE f \in [1..k -> ds] : \A i, j \in 1..k : i < j => f[i] < f[j]
  IN ord[(seed % k) + 1]

\* classes by capability -----------------------------------------------------
G_SquareLeaf == <<"Dense", "Diag", "Toeplitz", "ConstDiag", "Tri", "Identity", "Root", "User">>
G_RectLeaf == <<"Dense", "User", "Kernel">>
G_NonDiagLeaf == <<"Dense", "Toeplitz", "Tri", "Root", "User">>
G_PdLeaf == <<"Dense", "Diag", "Toeplitz", "Chol", "ConstDiag">>

RECURSIVE G_Term(_, _, _, _, _, _, _)
\* child of arbitrary class compatible with (square?, mode) at depth-1
G_Child(m, n, b, seed, depth, mode) ==
  LET leafs == IF mode = 1 THEN G_PdLeaf ELSE IF m = n THEN G_SquareLeaf ELSE G_RectLeaf
      comps == IF mode = 1 THEN <<"Kron", "AddedDiag", "Sum", "ConstMul", "BlockDiag", "BatchRepeat", "PsdSum", "KronAddedDiag">>
               ELSE IF m = n THEN <<"Kron", "Sum", "Matmul", "ConstMul", "BlockDiag", "Cat", "Interp", "BatchRepeat", "SumBatch", "Masked">>
               ELSE <<"Kron", "Sum", "Matmul", "ConstMul", "Cat", "Interp", "SumBatch">>
  IN IF depth <= 0 THEN G_Term(G_Pick(leafs, seed), m, n, b, seed + 1, 0, mode)
     ELSE G_Term(G_Pick(comps, seed), m, n, b, seed + 1, depth, mode)

G_PosDiagTerm(n, b, seed) ==
  IF seed % 3 = 0 THEN Op_ConstDiag(G_Pos(b \o <<1>>, seed), n) ELSE Op_Diag(G_Pos(b \o <<n>>, seed))

G_Term(cls, m, n, b, seed, depth, mode) ==
  LET d1 == depth - 1
      sub(mm, nn, bb, s) == G_Child(mm, nn, bb, s, d1, mode)
      b1 == b
      b2 == G_BcShape(b, seed)
  IN CASE cls = "Dense" -> Op_Dense(IF mode = 1 THEN G_PdDense(n, b, seed) ELSE G_Int(b \o <<m, n>>, seed))
       [] cls = "User" -> Op_User(IF mode = 1 THEN G_PdDense(n, b, seed) ELSE G_Int(b \o <<m, n>>, seed))
       [] cls = "Diag" -> Op_Diag(IF mode = 1 THEN G_Pos(b \o <<n>>, seed) ELSE G_Int(b \o <<n>>, seed))
       [] cls = "ConstDiag" -> Op_ConstDiag(IF mode = 1 THEN G_Pos(b \o <<1>>, seed) ELSE G_Int(b \o <<1>>, seed), n)
       [] cls = "Identity" -> Op_Identity(n, b)
       [] cls = "Zero" -> Op_Zero(b \o <<m, n>>)
       [] cls = "Toeplitz" -> Op_Toeplitz(G_ToepCol(n, b, seed, mode))
       [] cls = "Tri" ->
            LET up == seed % 2 L == G_LowerTri(n, b, seed)
            IN IF depth >= 1
               THEN \* triangular operator wrapping a structured (block diagonal of triangular) operator: n = k * (n/k)
                    LET k == G_Factor(n, seed + 1) blk == G_LowerTri(n \div k, b \o <<k>>, seed)
                    IN Op_TriO(Op_BlockDiag(Op_TriT(IF up = 1 THEN T_Transpose(blk) ELSE blk, up), -3), up)
               ELSE Op_TriT(IF up = 1 THEN T_Transpose(L) ELSE L, up)
       [] cls \in {"Chol", "CholU"} ->
            \* "CholU" (R^T R orientation) is only ever generated at top level: see known_findings.txt
            LET up == IF cls = "CholU" THEN 1 ELSE 0 L == G_LowerTri(n, b, seed)
            IN Op_Chol(Op_TriT(IF up = 1 THEN T_Transpose(L) ELSE L, up), up)
       [] cls = "Root" ->
            IF depth >= 1 THEN Op_RootO(G_Child(n, 1 + (seed % n), b, seed, d1, 0))
            ELSE Op_RootT(G_Small(b \o <<n, 1 + (seed % n)>>, seed))
       [] cls = "LowRankRoot" -> Op_LowRankRoot(G_Small(b \o <<n, T_Max(1, n - 1 - (seed % 2))>>, seed))
       [] cls = "Kron" ->
            LET m1 == G_Factor(m, seed) n1 == IF m = n THEN m1 ELSE G_Factor(n, seed + 1)
            IN Op_Kron(<<sub(m1, n1, b1, seed + 3), sub(m \div m1, n \div n1, b2, seed + 5)>>)
       [] cls = "Kron3" ->  \* three factors, middle one 1 x 1 or 2 x 2
            LET m1 == G_Factor(m, seed) r == m \div m1 m2 == G_Factor(r, seed + 1)
            IN Op_Kron(<<sub(m1, m1, b1, seed + 3), sub(m2, m2, b2, seed + 5), sub(r \div m2, r \div m2, b1, seed + 7)>>)
       [] cls = "KronTri" ->
            LET m1 == G_Factor(n, seed) up == seed % 2
                T1 == G_LowerTri(m1, b1, seed + 3) T2 == G_LowerTri(n \div m1, b2, seed + 5)
            IN Op_KronTri(<<Op_TriT(IF up = 1 THEN T_Transpose(T1) ELSE T1, up),
                            Op_TriT(IF up = 1 THEN T_Transpose(T2) ELSE T2, up)>>, up)
       [] cls = "KronDiag" ->
            LET m1 == G_Factor(n, seed)
                f(s, k, bb) == IF mode = 1 THEN G_Pos(bb \o <<k>>, s) ELSE G_Int(bb \o <<k>>, s)
            IN Op_KronDiag(<<Op_Diag(f(seed + 3, m1, b1)), Op_Diag(f(seed + 5, n \div m1, b2))>>)
       [] cls = "KronAddedDiag" ->
            LET m1 == G_Factor(n, seed)
                K == Op_Kron(<<G_Child(m1, m1, b1, seed + 3, d1 - 1, mode), G_Child(n \div m1, n \div m1, b1, seed + 5, d1 - 1, mode)>>)
            IN Op_KronAddedDiag(K, IF mode = 1 THEN G_PosDiagTerm(n, b1, seed + 7)
                                   ELSE IF seed % 2 = 0 THEN Op_Diag(G_Int(b1 \o <<n>>, seed + 7))
                                   ELSE Op_ConstDiag(G_Int(b1 \o <<1>>, seed + 7), n))
       [] cls = "SumKron" ->
            LET m1 == G_Factor(n, seed)
                K(s) == Op_Kron(<<G_Term("Dense", m1, m1, b1, s, 0, mode), G_Term("Dense", n \div m1, n \div m1, b1, s + 2, 0, mode)>>)
            IN Op_SumKron(<<K(seed + 3), K(seed + 11)>>)
       \* an interpolated operator nested in a sum: its products go through the sparse W matrices (make_sparse_from_indices_and_values)
       [] cls = "SumInterp" -> Op_Sum(<<G_Term("Interp", m, n, b1, seed + 3, 1, 0), G_Term("Dense", m, n, b1, seed + 5, 0, 0)>>)
       [] cls = "MatmulTri" -> Op_Matmul(G_Term("Tri", n, n, b1, seed + 3, 0, 0), G_Term("Dense", n, n, b2, seed + 5, 0, 0))
       \* K = R R^T of rank 2 plus a constant diagonal s I with s # 1: a pivoted-Cholesky preconditioner of rank >= 2 is exact (P = A)
       [] cls = "AddedDiagRootConst" -> Op_AddedDiag(Op_RootT(G_Small(b1 \o <<n, 2>>, seed + 3)), Op_ConstDiag(T_Full(b1 \o <<1>>, 3), n))
       \* a larger, badly scaled system (entries ~ 10^3): K + D with per-element noise; CG needs more than 10 iterations
       [] cls = "AddedDiagBig" -> Op_AddedDiag(Op_Dense(T_Scale(G_PdDense(n, b1, seed + 3), 500)), Op_Diag(T_Scale(G_Pos(b1 \o <<n>>, seed + 5), 100)))
       \* congruence with diag(1, 3, 5, 7, 1, ...) spreads the spectrum over several decades: every Lanczos / quadrature node matters
       [] cls = "DenseBig" -> LET A == G_PdDense(n, b1, seed + 3) r == Len(A.shape)
                              IN Op_Dense(T_Make(A.shape, LAMBDA idx : T_At(A, idx) * (1 + 2 * (idx[r - 1] % 4)) * (1 + 2 * (idx[r] % 4))))
       \* upper-orientation Cholesky operators nested in structures whose Cholesky is assembled from the children's factors
       [] cls = "KronCholU" -> Op_Kron(<<G_Term("CholU", 2, 2, b1, seed + 3, 0, 1), G_Term("Dense", n \div 2, n \div 2, b1, seed + 5, 0, 1)>>)
       \* A = R^T R with R an upper-triangular Kronecker product of upper-triangular factors (what K.cholesky(upper=True) returns for a Kronecker K)
       [] cls = "CholKronTriU" ->
            LET m1 == G_Factor(n, seed) T1 == G_LowerTri(m1, b1, seed + 3) T2 == G_LowerTri(n \div m1, b1, seed + 5)
            IN Op_Chol(Op_KronTri(<<Op_TriT(T_Transpose(T1), 1), Op_TriT(T_Transpose(T2), 1)>>, 1), 1)
       [] cls = "BlockDiagCholU" -> Op_BlockDiag(G_Term("CholU", n \div 2, n \div 2, b1 \o <<2>>, seed + 3, 0, 1), -3)
       \* a batch of mixed definiteness: member 0 is PSD but singular (rank 2: its Cholesky needs jitter), member 1 is positive definite.
       \* The factor of the definite member must not be perturbed because of the other one (batch shape is always (2))
       [] cls = "MixedDef" -> LET R == T_Fill(<<n, 2>>, seed + 3, -2, 2) S0 == T_MatMul(R, T_Transpose(R))
                              IN Op_Dense(T_Cat(<<T_Unsqueeze(S0, 0), T_Unsqueeze(G_PdDense(n, <<>>, seed + 5), 0)>>, 0))
       \* operators whose base hands its argument through (IdentityLinearOperator._matmul returns the right-hand side itself): any in-place
       \* post-processing of "the base's product" would write into the caller's tensor
       [] cls = "ConstMulI" -> Op_ConstMul(Op_Identity(n, b1), G_Pos(b1, seed + 3))
       [] cls = "BlockDiagConstMulI" -> Op_BlockDiag(Op_ConstMul(Op_Identity(n \div 2, b1 \o <<2>>), G_Pos(b1 \o <<2>>, seed + 3)), -3)
       \* an exactly singular PSD matrix of huge magnitude (rank 2, entries ~ 1e7, all exactly representable): the jitter of the safe Cholesky is
       \* absorbed by rounding, every attempt fails and root-based code must fall back to the eigendecomposition
       \* (minus the identity: eigenvalues -1 on the null space, i.e. -1e-8 relative - "numerically" semi-definite, as rounding would make it;
       \*  the jitter schedule 1e-8 .. 1e-6 cannot repair it)
       [] cls = "LowRankHuge" -> LET R == T_Fill(b1 \o <<n, 2>>, seed + 3, -2, 2)
                                 IN Op_Dense(T_Sub(T_Scale(T_MatMul(R, T_Transpose(R)), 10000000), T_EyeB(b1, n)))
       [] cls = "SumZ" -> Op_Sum(<<G_Term("Dense", m, n, b1, seed + 3, 0, 0), Op_Zero(b2 \o <<m, n>>)>>)
       [] cls = "AddedDiag" ->
            Op_AddedDiag(IF d1 <= 0 THEN G_Term(G_Pick(IF mode = 1 THEN <<"Dense", "Toeplitz", "Chol">> ELSE G_NonDiagLeaf, seed), n, n, b1, seed + 3, 0, mode)
                         ELSE sub(n, n, b1, seed + 3),
                         IF mode = 1 THEN G_PosDiagTerm(n, b2, seed + 5) ELSE Op_Diag(G_Int(b2 \o <<n>>, seed + 5)))
       \* variants whose diagonal part is an IdentityLinearOperator (its matmul / inverse return their argument: aliasing hazard)
       [] cls = "LRRAddedDiagI" -> Op_LRRAddedDiag(Op_LowRankRoot(G_Small(b1 \o <<n, T_Max(1, n - 1)>>, seed + 3)), Op_Identity(n, b1))
       \* the non-diagonal part is a root / Kronecker product OF IDENTITIES: its _matmul hands back its argument (aliasing hazard, the other way round)
       [] cls = "AddedDiagRootI" -> Op_AddedDiag(Op_RootO(Op_Identity(n, b1)), IF mode = 1 THEN Op_Diag(G_Pos(b1 \o <<n>>, seed + 5)) ELSE Op_Diag(G_Int(b1 \o <<n>>, seed + 5)))
       [] cls = "AddedDiagKronI" -> Op_AddedDiag(Op_Kron(<<Op_Identity(n, b1), Op_Identity(1, b1)>>), IF mode = 1 THEN Op_Diag(G_Pos(b1 \o <<n>>, seed + 5)) ELSE Op_Diag(G_Int(b1 \o <<n>>, seed + 5)))
       [] cls = "AddedDiagI" -> Op_AddedDiag(G_Term("Dense", n, n, b1, seed + 3, 0, mode), Op_Identity(n, b1))
       [] cls = "SumI" -> Op_Sum(<<G_Term("Dense", n, n, b1, seed + 3, 0, mode), Op_Identity(n, b1)>>)
       [] cls = "LRRAddedDiag" ->
            Op_LRRAddedDiag(Op_LowRankRoot(G_Small(b1 \o <<n, T_Max(1, n - 1)>>, seed + 3)),
                            IF mode = 1 THEN Op_Diag(G_Pos(b1 \o <<n>>, seed + 5)) ELSE Op_Diag(G_Int(b1 \o <<n>>, seed + 5)))
       [] cls = "Sum" -> Op_Sum(<<sub(m, n, b1, seed + 3), sub(m, n, b2, seed + 5)>>)
       [] cls = "Sum3" -> Op_Sum(<<sub(m, n, b2, seed + 3), sub(m, n, b1, seed + 5), sub(m, n, b2, seed + 8)>>)
       [] cls = "PsdSum" -> Op_PsdSum(<<G_Child(n, n, b1, seed + 3, d1, 1), G_Child(n, n, b2, seed + 5, d1, 1)>>)
       [] cls = "Matmul" ->
            LET k == 1 + (seed % 3)
            IN Op_Matmul(G_Child(m, k, b1, seed + 3, d1, 0), G_Child(k, n, b2, seed + 5, d1, 0))
       [] cls = "Mul" -> Op_Mul(G_Child(n, n, b1, seed + 3, d1, 1), G_Child(n, n, b1, seed + 5, d1, 1))
       [] cls = "ConstMul" ->
            LET cs == IF seed % 2 = 0 THEN <<>> ELSE b
                c == IF mode = 1 THEN G_Pos(cs, seed + 7) ELSE T_Fill(cs, seed + 7, -3, 3)
            IN Op_ConstMul(sub(m, n, b1, seed + 3), c)
       \* a constant that broadcasts along an INNER batch dimension (shape b with its last entry replaced by 1)
       [] cls = "ConstMulBc" ->
            LET cs == IF Len(b) >= 1 THEN [b EXCEPT ![Len(b)] = 1] ELSE <<1>>
                c == IF mode = 1 THEN G_Pos(cs, seed + 7) ELSE T_Fill(cs, seed + 7, -3, 3)
            IN Op_ConstMul(G_Term("Dense", m, n, b1, seed + 3, 0, mode), c)
       [] cls \in {"BlockDiag", "BlockInter"} ->
            \* k blocks of size (m/k) x (n/k); block dim at -3, or moved to the front when seed is odd and b # <<>>
            LET k == G_Factor(n, seed + 1)
                front == (seed % 2 = 1) /\ Len(b) > 0
                bb == IF front THEN <<k>> \o b ELSE b \o <<k>>
                bd == IF front THEN 0 ELSE -3
                \* the Block classes refuse diagonal bases in their constructor (explicit NotImplementedError)
                base == IF d1 <= 0 THEN G_Term(G_Pick(IF mode = 1 THEN <<"Dense", "Toeplitz", "Chol">> ELSE G_NonDiagLeaf, seed),
                                               m \div k, n \div k, bb, seed + 3, 0, mode)
                        ELSE sub(m \div k, n \div k, bb, seed + 3)
            IN IF cls = "BlockDiag" THEN Op_BlockDiag(base, bd) ELSE Op_BlockInter(base, bd)
       [] cls = "SumBatch" ->
            LET k == 2 + (seed % 2)
                front == (seed % 2 = 1) /\ Len(b) > 0
                bb == IF front THEN <<k>> \o b ELSE b \o <<k>>
            IN Op_SumBatch(sub(m, n, bb, seed + 3), IF front THEN 0 ELSE -3)
       [] cls = "BatchRepeat" ->
            \* base batch bb, repeats reps with bb * reps = b (elementwise); extra leading repeat dim when seed % 3 = 2
            LET reps0 == [i \in 1..Len(b) |-> IF (seed + i) % 2 = 0 THEN b[i] ELSE 1]
                bb == [i \in 1..Len(b) |-> b[i] \div reps0[i]]
                base == sub(m, n, bb, seed + 3)
            \* (a BatchRepeat directly around a BatchRepeat is a construction the class itself declares unsupported: the inner repeat
            \*  is then replaced by a leaf)
            IN Op_BatchRepeat(IF base.cls = "BatchRepeat" THEN G_Child(m, n, bb, seed + 4, 0, mode) ELSE base, reps0)
       [] cls = "Cat" ->
            LET r == Len(b) + 2
                \* 0: rows, 1: cols, 2: first batch dim (always a batch dim when there are three of them: that is where the
                \*    concatenation axis has to be tracked through batch permutations / reductions)
                dsel == IF Len(b) >= 3 THEN 2 ELSE seed % (IF Len(b) > 0 THEN 3 ELSE 2)
                full == b \o <<m, n>>
                p == IF dsel = 0 THEN r - 1 ELSE IF dsel = 1 THEN r ELSE 1
                tot == full[p]
            IN IF tot < 2 THEN G_Term("Dense", m, n, b, seed, 0, mode)
               ELSE LET a == 1 + (seed % (tot - 1))
                        s1 == [full EXCEPT ![p] = a] s2 == [full EXCEPT ![p] = tot - a]
                        mk(s, sd) == G_Child(s[r - 1], s[r], SubSeq(s, 1, r - 2), sd, d1, 0)
                    \* three pieces of unequal sizes and offsets where the axis is long enough (the offset of a piece then
                    \* differs from its size, as it does in general)
                    IN IF tot >= 3 /\ seed % 2 = 0
                       THEN LET t1 == [full EXCEPT ![p] = 1] t2 == [full EXCEPT ![p] = tot - 2]
                            IN Op_Cat(<<mk(t1, seed + 3), mk(t2, seed + 5), mk(t1, seed + 7)>>, p - 1 - r)
                       ELSE Op_Cat(<<mk(s1, seed + 3), mk(s2, seed + 5)>>, p - 1 - r)
       [] cls = "Interp" ->
            LET km == 2 + (seed % 2) kn == IF mode = 1 \/ m = n THEN km ELSE 3
                p == 1 + (seed % 2)
                li == G_InterpIdx(m, p, km, b, seed)
                ri == IF mode = 1 THEN li ELSE G_InterpIdx(n, p, kn, b, seed + 1)
                lv == G_Small(b \o <<m, p>>, seed + 2)
                rv == IF mode = 1 THEN lv ELSE G_Small(b \o <<n, p>>, seed + 4)
            IN Op_Interp(G_Child(km, kn, b, seed + 3, d1, mode), li, lv, ri, rv)
       \* interpolation of a root-form base with the SAME indices but DIFFERENT weights on the two sides (an off-diagonal block of a
       \* symmetric interpolated kernel): the diagonal fast path may not treat it as symmetric
       [] cls = "InterpRootSameIdx" ->
            LET km == 3 p == 2
                li == G_InterpIdx(n, p, km, b, seed)
                lv == G_Small(b \o <<n, p>>, seed + 2)
                rv == G_Small(b \o <<n, p>>, seed + 4)
            IN Op_Interp(Op_RootT(G_Small(b \o <<km, 2>>, seed + 6)), li, lv, li, rv)
       [] cls = "Masked" ->
            LET m0 == m + 1 + (seed % 2) n0 == IF m = n THEN m0 ELSE n + 1
                rm == G_Mask(m0, m, seed) cm == IF m = n THEN rm ELSE G_Mask(n0, n, seed + 1)
            IN Op_Masked(sub(m0, n0, b, seed + 3), rm, cm)
       [] cls = "Perm" -> Op_Perm(G_PermT(n, b, seed))
       [] cls = "TransPerm" -> Op_TransPerm(IF n = 1 THEN 1 ELSE 2)
       \* block structures over a REPEATED base: the blocks are equal matrices but independent components (samplers must not share their noise)
       [] cls = "BlockDiagRepeat" -> Op_BlockDiag(Op_BatchRepeat(G_Term("Dense", n \div 2, n \div 2, b1 \o <<1>>, seed + 3, 0, 1), [i \in 1..Len(b1) |-> 1] \o <<2>>), -3)
       [] cls = "BlockInterRepeat" -> Op_BlockInter(Op_BatchRepeat(G_Term("Dense", n \div 2, n \div 2, b1 \o <<1>>, seed + 3, 0, 1), [i \in 1..Len(b1) |-> 1] \o <<2>>), -3)
       [] cls = "SumBatchRepeat" -> Op_SumBatch(Op_BatchRepeat(G_Term("Dense", n, n, b1 \o <<1>>, seed + 3, 0, 1), [i \in 1..Len(b1) |-> 1] \o <<3>>), -3)
       \* a triangular operator over a batch-repeated triangular base (what K.repeat(...).cholesky() returns)
       \* K + D where only the diagonal part carries the batch dimensions (K broadcasts)
       [] cls = "AddedDiagKBc" -> Op_AddedDiag(G_Term("Dense", n, n, <<>>, seed + 3, 0, mode),
                                               IF mode = 1 THEN Op_Diag(G_Pos(b \o <<n>>, seed + 5)) ELSE Op_Diag(G_Int(b \o <<n>>, seed + 5)))
       \* Kronecker product plus a Kronecker-structured diagonal (own log-determinant / solve branch of KroneckerProductAddedDiagLinearOperator)
       [] cls = "KronAddedKronDiag" ->
            LET m1 == G_Factor(n, seed)
                K == Op_Kron(<<G_Term("Dense", m1, m1, b1, seed + 3, 0, mode), G_Term("Dense", n \div m1, n \div m1, b1, seed + 5, 0, mode)>>)
                f(s, k) == IF mode = 1 THEN G_Pos(b1 \o <<k>>, s) ELSE G_Int(b1 \o <<k>>, s)
            IN Op_KronAddedDiag(K, Op_KronDiag(<<Op_Diag(f(seed + 7, m1)), Op_Diag(f(seed + 9, n \div m1))>>))
       \* ... and the same with constant factors of the diagonal (d1 I) kron (d2 I): yet another branch of its log-determinant
       [] cls = "KronAddedKronConstDiag" ->
            LET m1 == G_Factor(n, seed)
                K == Op_Kron(<<G_Term("Dense", m1, m1, b1, seed + 3, 0, mode), G_Term("Dense", n \div m1, n \div m1, b1, seed + 5, 0, mode)>>)
            IN Op_KronAddedDiag(K, Op_KronDiag(<<Op_ConstDiag(G_Pos(b1 \o <<1>>, seed + 7), m1), Op_ConstDiag(G_Pos(b1 \o <<1>>, seed + 9), n \div m1)>>))
       \* a batch whose members have Krylov spaces of different dimension: member 0 is 2 I + v v^T (two distinct eigenvalues), member 1 generic
       [] cls = "MixedSpectrum" ->
            LET v == T_Fill(<<n, 1>>, seed + 3, 1, 2) S0 == T_Add(T_Scale(T_EyeB(<<>>, n), 2), T_MatMul(v, T_Transpose(v)))
            IN Op_Dense(T_Cat(<<T_Unsqueeze(S0, 0), T_Unsqueeze(G_PdDense(n, <<>>, seed + 5), 0)>>, 0))
       \* diagonal operators in the role of Cholesky factors / blocks (DiagLinearOperator has its own _cholesky_solve)
       [] cls = "BlockInterDiag" -> Op_BlockInter(Op_Diag(IF mode = 1 THEN G_Pos(b1 \o <<2, n \div 2>>, seed + 3) ELSE G_Int(b1 \o <<2, n \div 2>>, seed + 3)), -3)
       [] cls = "CholDiag" -> Op_Chol(Op_Diag(G_Pos(b1 \o <<n>>, seed + 3)), seed % 2)
       \* concatenations whose FIRST block is an identity (its product is the right-hand side itself): [I | B] and [I ; B]
       [] cls = "CatICols" -> Op_Cat(<<Op_Identity(n, b1), G_Term("Dense", n, n, b1, seed + 3, 0, 0)>>, -1)
       [] cls = "CatIRows" -> Op_Cat(<<Op_Identity(n, b1), G_Term("Dense", n, n, b1, seed + 3, 0, 0)>>, -2)
       \* a square Kronecker product of RECTANGULAR factors: (1 x 2) kron (n x n/2)
       [] cls = "KronRect" -> Op_Kron(<<G_Term("Dense", 1, 2, b1, seed + 3, 0, 0), G_Term("Dense", n, n \div 2, b1, seed + 5, 0, 0)>>)
       \* grid-interpolation form W K W^T with TWO weights per row (its approximate diagonal differs from the true one)
       [] cls = "Interp2" ->
            LET km == 3
                li == G_InterpIdx(m, 2, km, b, seed)
                ri == IF mode = 1 THEN li ELSE G_InterpIdx(n, 2, km, b, seed + 1)
                lv == G_Small(b \o <<m, 2>>, seed + 2)
                rv == IF mode = 1 THEN lv ELSE G_Small(b \o <<n, 2>>, seed + 4)
            IN Op_Interp(G_Term("Dense", km, km, b, seed + 3, 0, mode), li, lv, ri, rv)
       \* the same operator with its index data held as int32 (index data must survive every conversion unchanged)
       [] cls = "InterpI32" -> LET t == G_Term("Interp2", m, n, b, seed, 0, mode) IN [t EXCEPT !.cls = "InterpI32"]      \* (dense base)
       [] cls = "InterpLeft" ->
            LET km == 2 + (seed % 2) p == 1 + (seed % 2)
            IN Op_InterpLeft(G_Term("Dense", km, n, b, seed + 3, 0, 0), G_InterpIdx(m, p, km, b, seed), G_Small(b \o <<m, p>>, seed + 2))
       [] cls = "TriRepeat" ->
            LET up == seed % 2 L == G_LowerTri(n, <<>>, seed)
                base == Op_TriT(IF up = 1 THEN T_Transpose(L) ELSE L, up)
            IN IF b = <<>> THEN base ELSE Op_TriO(Op_BatchRepeat(base, b), up)
       [] cls = "KernelM" ->
            LET x1 == G_Small(b1 \o <<m, 2>>, seed + 3)
                x2 == IF mode = 1 THEN x1 ELSE G_Small(b2 \o <<n, 2>>, seed + 5)
                c == IF mode = 1 THEN G_Pos(b, seed + 7) ELSE T_Fill(b, seed + 7, -2, 3)
            IN Op_KernelM(x1, x2, c, Op_RootT(G_Small(<<2, 2>>, seed + 9)))
       [] cls = "Kernel" ->
            LET d == 1 + (seed % 2)
                x1 == G_Small(b1 \o <<m, d>>, seed + 3)
                x2 == IF mode = 1 THEN x1 ELSE G_Small(b2 \o <<n, d>>, seed + 5)
                c == IF mode = 1 THEN G_Pos(b, seed + 7) ELSE T_Fill(b, seed + 7, -2, 3)
            IN Op_Kernel(x1, x2, c, seed % 2)

\* all class names understood by G_Term
G_AllClasses == <<"Dense", "User", "Diag", "ConstDiag", "Identity", "Zero", "Toeplitz", "Tri", "Chol", "CholU", "SumZ", "Root",
                  "LowRankRoot", "Kron", "Kron3", "KronTri", "KronDiag", "KronAddedDiag", "SumKron", "AddedDiag",
                  "LRRAddedDiag", "Sum", "Sum3", "PsdSum", "Matmul", "Mul", "ConstMul", "BlockDiag", "BlockInter",
                  "SumBatch", "BatchRepeat", "Cat", "Interp", "Masked", "Perm", "TransPerm", "Kernel", "SumInterp", "MatmulTri", "InterpRootSameIdx">>
G_SquareOnly == {"KronAddedKronConstDiag", "BlockInterDiag", "CholDiag", "KronAddedKronDiag", "MixedSpectrum", "AddedDiagKBc", "TriRepeat", "BlockDiagRepeat", "BlockInterRepeat", "SumBatchRepeat", "AddedDiagRootI", "AddedDiagKronI", "CholKronTriU", "LowRankHuge", "ConstMulI", "BlockDiagConstMulI", "InterpRootSameIdx", "MatmulTri", "LRRAddedDiagI", "AddedDiagI", "SumI", "Diag", "ConstDiag", "Identity", "Toeplitz", "Tri", "Chol", "CholU", "Root", "LowRankRoot", "Kron3", "KronTri",
                 "KronDiag", "KronAddedDiag", "SumKron", "AddedDiag", "LRRAddedDiag", "PsdSum", "Mul", "BlockDiag",
                 "BlockInter", "Perm", "TransPerm"}
G_LeafClasses == {"InterpI32", "Interp2", "KronRect", "KronAddedKronConstDiag", "InterpLeft", "CatICols", "CatIRows", "BlockInterDiag", "CholDiag", "KronAddedKronDiag", "MixedSpectrum", "AddedDiagKBc", "TriRepeat", "BlockDiagRepeat", "BlockInterRepeat", "SumBatchRepeat", "KernelM", "AddedDiagRootI", "AddedDiagKronI", "ConstMulBc", "CholKronTriU", "LowRankHuge", "ConstMulI", "BlockDiagConstMulI", "InterpRootSameIdx", "MixedDef", "AddedDiagRootConst", "AddedDiagBig", "DenseBig", "KronCholU", "BlockDiagCholU", "SumInterp", "MatmulTri", "LRRAddedDiagI", "AddedDiagI", "SumI", "Dense", "User", "Diag", "ConstDiag", "Identity", "Zero", "Toeplitz", "Chol", "CholU", "SumZ", "LowRankRoot", "KronTri",
                  "KronDiag", "SumKron", "LRRAddedDiag", "Perm", "TransPerm", "Kernel"}
\* classes that only exist for PSD arguments
G_PsdOnly == {"CholDiag", "MixedSpectrum", "BlockDiagRepeat", "BlockInterRepeat", "SumBatchRepeat", "CholKronTriU", "Chol", "CholU", "PsdSum", "Mul"}
=============================================================================
