------------------------------ MODULE LOIndex ------------------------------
(***************************************************************************)
(* The index language of property C03.                                     *)
(*                                                                         *)
(* S-layer: Ix_Result(T, idx) = what torch returns for T[idx] on a dense   *)
(* tensor (integers are *basic* indices in torch: they select first; then  *)
(* slices; then the advanced (tensor / list) indices are broadcast together *)
(* and their dimensions placed at the first advanced position when the      *)
(* advanced positions are adjacent, at the front otherwise).                *)
(*                                                                         *)
(* M-layer: transcriptions of what LinearOperator.__getitem__ and          *)
(* utils/getitem.py do (index normalisation, int -> slice + squeeze,        *)
(* _compute_getitem_size, _is_tensor_index_moved_to_start), checked by TLC  *)
(* against the S-layer for every index tuple in the bounds.                 *)
(*                                                                         *)
(* An index item is a record [k, a, b, c, t]:                              *)
(*   k = "int"  : a = value                                                *)
(*   k = "sl"   : a, b, c = start, stop, step; Ix_None stands for None     *)
(*   k = "ell"  : Ellipsis                                                 *)
(*   k = "ten"  : t = index tensor (rank >= 1)   k = "list": t = rank-1    *)
(*   k = "t0"   : t = rank-0 index tensor (behaves as an int)              *)
(***************************************************************************)
EXTENDS LOTensor

Ix_None == -99
Ix_Int(v) == [k |-> "int", a |-> v, b |-> 0, c |-> 0, t |-> <<>>]
Ix_Sl(a, b, c) == [k |-> "sl", a |-> a, b |-> b, c |-> c, t |-> <<>>]
Ix_Full == Ix_Sl(Ix_None, Ix_None, Ix_None)
Ix_Ell == [k |-> "ell", a |-> 0, b |-> 0, c |-> 0, t |-> <<>>]
Ix_Ten(t) == [k |-> "ten", a |-> 0, b |-> 0, c |-> 0, t |-> t]
Ix_List(t) == [k |-> "list", a |-> 0, b |-> 0, c |-> 0, t |-> t]
Ix_T0(v) == [k |-> "t0", a |-> v, b |-> 0, c |-> 0, t |-> T_Scalar(v)]

Ix_IsInt(it) == it.k \in {"int", "t0"}
Ix_IsTen(it) == it.k \in {"ten", "list"}
Ix_IsSl(it) == it.k = "sl"

\* ---- python slice.indices(size) for step > 0 ------------------------------
Ix_SlStep(it) == IF it.c = Ix_None THEN 1 ELSE it.c
Ix_Clamp(v, size) == IF v < 0 THEN T_Max(v + size, 0) ELSE T_Min(v, size)
Ix_SlStart(it, size) == IF it.a = Ix_None THEN 0 ELSE Ix_Clamp(it.a, size)
Ix_SlStop(it, size) == IF it.b = Ix_None THEN size ELSE Ix_Clamp(it.b, size)
Ix_SlRange(it, size) == T_Range(Ix_SlStart(it, size), Ix_SlStop(it, size), Ix_SlStep(it))
Ix_SlLen(it, size) == Len(Ix_SlRange(it, size))

\* ---- ellipsis fill and padding (same in S and M) --------------------------
Ix_EllPos(idx) == IF \E i \in 1..Len(idx) : idx[i].k = "ell" THEN CHOOSE i \in 1..Len(idx) : idx[i].k = "ell" ELSE 0
Ix_Fill(idx, rank) ==
  LET p == Ix_EllPos(idx)
      filled == IF p = 0 THEN idx
                ELSE SubSeq(idx, 1, p - 1) \o [i \in 1..(rank - (Len(idx) - 1)) |-> Ix_Full] \o SubSeq(idx, p + 1, Len(idx))
  IN filled \o [i \in 1..(rank - Len(filled)) |-> Ix_Full]

\* torch's validity verdict (property C19): int / tensor entries in range, at most one ellipsis, not too many items
Ix_InRange(v, size) == v >= -size /\ v < size
Ix_Valid(shape, idx) ==
  /\ Cardinality({i \in 1..Len(idx) : idx[i].k = "ell"}) <= 1
  /\ Len(idx) - (IF Ix_EllPos(idx) > 0 THEN 1 ELSE 0) <= Len(shape)
  /\ LET f == Ix_Fill(idx, Len(shape))
     IN /\ \A i \in 1..Len(f) :
             /\ (Ix_IsInt(f[i]) => Ix_InRange(f[i].a, shape[i]))
             /\ (Ix_IsTen(f[i]) => \A j \in 1..Len(f[i].t.data) : Ix_InRange(f[i].t.data[j], shape[i]))
        /\ \A i, j \in 1..Len(f) : (Ix_IsTen(f[i]) /\ Ix_IsTen(f[j])) => T_BCompat(f[i].t.shape, f[j].t.shape)

Ix_Norm(v, size) == IF v < 0 THEN v + size ELSE v

(***************************************************************************)
(* S-layer                                                                 *)
(***************************************************************************)
\* 1. apply ints (select), from the last position to the first
RECURSIVE Ix_ApplyInts(_, _, _)
Ix_ApplyInts(T, f, p) ==
  IF p = 0 THEN T
  ELSE IF Ix_IsInt(f[p]) THEN Ix_ApplyInts(T_Select(T, p - 1, Ix_Norm(f[p].a, T.shape[p])), f, p - 1)
  ELSE Ix_ApplyInts(T, f, p - 1)
Ix_DropInts(f) == SelectSeq(f, LAMBDA it : ~Ix_IsInt(it))

\* 2. apply slices (index_select with the slice's range)
RECURSIVE Ix_ApplySlices(_, _, _)
Ix_ApplySlices(T, g, p) ==
  IF p = 0 THEN T
  ELSE IF Ix_IsSl(g[p]) /\ g[p] # Ix_Full
       THEN Ix_ApplySlices(T_IndexSelect(T, p - 1, Ix_SlRange(g[p], T.shape[p])), g, p - 1)
       ELSE Ix_ApplySlices(T, g, p - 1)

\* 3. advanced indices
Ix_TenPos(g) == {i \in 1..Len(g) : Ix_IsTen(g[i])}
Ix_Adjacent(P) == P = {} \/ (LET lo == CHOOSE i \in P : \A j \in P : i <= j
                                 hi == CHOOSE i \in P : \A j \in P : i >= j IN \A i \in lo..hi : i \in P)
Ix_BcastAll(g) ==
  LET P == Ix_TenPos(g)
      RECURSIVE go(_, _)
      go(i, acc) == IF i > Len(g) THEN acc ELSE go(i + 1, IF i \in P THEN T_BShape(acc, g[i].t.shape) ELSE acc)
  IN go(1, <<>>)

Ix_ApplyTensors(T, g) ==
  LET P == Ix_TenPos(g)
  IN IF P = {} THEN T
     ELSE LET S == Ix_BcastAll(g) ns == Len(S) r == Len(g)
              first == CHOOSE i \in P : \A j \in P : i <= j
              adj == Ix_Adjacent(P)
              rest == SelectSeq([i \in 1..r |-> i], LAMBDA i : i \notin P)     \* non-advanced dims, in order
              nbefore == IF adj THEN Cardinality({i \in 1..r : i \notin P /\ i < first}) ELSE 0
              outshape == [k \in 1..nbefore |-> T.shape[rest[k]]] \o S \o
                          [k \in 1..(Len(rest) - nbefore) |-> T.shape[rest[nbefore + k]]]
          IN T_Make(outshape, LAMBDA oi :
               LET sidx == SubSeq(oi, nbefore + 1, nbefore + ns)
                   restval(k) == IF k <= nbefore THEN oi[k] ELSE oi[ns + k]
                   pos(i) == CHOOSE k \in 1..Len(rest) : rest[k] = i
               IN T_At(T, [i \in 1..r |->
                         IF i \in P THEN Ix_Norm(T_At(g[i].t, T_BIdx(sidx, g[i].t.shape)), T.shape[i])
                         ELSE restval(pos(i))]))

Ix_Result(T, idx) ==
  LET f == Ix_Fill(idx, T_Rank(T))
      T1 == Ix_ApplyInts(T, f, Len(f))
      g == Ix_DropInts(f)
      T2 == Ix_ApplySlices(T1, g, Len(g))
  IN Ix_ApplyTensors(T2, g)

(***************************************************************************)
(* M-layer: what the code does                                             *)
(***************************************************************************)
\* LinearOperator.__getitem__: an int in a *matrix* position becomes slice(i, i + 1) and the dimension is squeezed
\* afterwards.  FixedNeg = FALSE is the pinned code (-1 -> slice(-1, 0), the empty slice); TRUE is the repaired code
\* (stop = i + 1 or None).
Ix_ImplIntSlice(i, FixedNeg) == Ix_Sl(i, IF FixedNeg /\ i + 1 = 0 THEN Ix_None ELSE i + 1, Ix_None)

\* number of elements the converted slice selects; the S-layer needs exactly 1
Ix_ImplIntSliceLen(i, size, FixedNeg) == Ix_SlLen(Ix_ImplIntSlice(i, FixedNeg), size)

\* the index after normalisation, as handed to _getitem / _compute_getitem_size (0-d tensors were turned into ints)
Ix_ImplAbsorbed(f) ==
  LET rank == Len(f) bt == \E i \in 1..(rank - 2) : Ix_IsTen(f[i]) rt == Ix_IsTen(f[rank - 1]) ct == Ix_IsTen(f[rank])
  IN (bt /\ (rt \/ ct)) \/ (~bt /\ rt /\ ct)
\* FixedAbs = FALSE: pinned code converts ints to slices even when the tensor indices absorb the matrix dimensions
Ix_ImplConverts(f, FixedAbs) == ~(FixedAbs /\ Ix_ImplAbsorbed(f))
Ix_ImplNormalize(idx, rank, FixedNeg, FixedAbs) ==
  LET f == Ix_Fill(idx, rank)
  IN [i \in 1..rank |-> IF Ix_IsInt(f[i]) /\ i >= rank - 1 /\ Ix_ImplConverts(f, FixedAbs)
                         THEN Ix_ImplIntSlice(f[i].a, FixedNeg) ELSE f[i]]

\* transcription of utils/getitem.py::_is_tensor_index_moved_to_start
Ix_ImplMovedToStart(f) ==
  IF Ix_IsTen(f[1]) THEN TRUE
  ELSE LET RECURSIVE go(_, _, _)
           go(i, has, cont) ==
             IF i > Len(f) THEN FALSE
             ELSE IF Ix_IsTen(f[i]) THEN (IF ~has THEN go(i + 1, TRUE, cont) ELSE IF ~cont THEN TRUE ELSE go(i + 1, has, cont))
             ELSE IF Ix_IsSl(f[i]) THEN go(i + 1, has, IF has THEN FALSE ELSE cont)
             ELSE go(i + 1, has, cont)
       IN go(2, FALSE, TRUE)

\* transcription of utils/getitem.py::_compute_getitem_size (on the filled index, ints not yet converted)
Ix_ImplGetitemSize(shape, f) ==
  LET RECURSIVE go(_, _, _, _, _, _)
      \* i, final_shape, tensor_idx (-1 = None), tensor_idx_shape, slice_after_tensor_idx
      go(i, fs, tpos, tshape, safter, dummy) ==
        IF i > Len(f) THEN IF tpos = -1 THEN fs ELSE SubSeq(fs, 1, tpos) \o tshape \o SubSeq(fs, tpos + 1, Len(fs))
        ELSE IF Ix_IsSl(f[i]) THEN go(i + 1, Append(fs, Ix_SlLen(f[i], shape[i])), tpos, tshape, IF tpos # -1 THEN TRUE ELSE safter, 0)
        ELSE IF Ix_IsInt(f[i]) THEN go(i + 1, fs, tpos, tshape, safter, 0)
        ELSE IF tpos = -1 THEN go(i + 1, fs, Len(fs), f[i].t.shape, safter, 0)
             ELSE go(i + 1, fs, IF safter THEN 0 ELSE tpos, T_BShape(tshape, f[i].t.shape), safter, 0)
  IN go(1, <<>>, -1, <<>>, FALSE, 0)

\* the shape __getitem__ ends up with: _getitem on the normalised index, then squeeze of the converted int positions
Ix_ImplResultShape(shape, idx, FixedNeg, FixedAbs) ==
  LET rank == Len(shape)
      f == Ix_Fill(idx, rank)
      nz == Ix_ImplNormalize(idx, rank, FixedNeg, FixedAbs)
      s1 == Ix_ImplGetitemSize(shape, nz)                 \* size after _getitem / _get_indices
      sqRow == Ix_IsInt(f[rank - 1]) /\ Ix_ImplConverts(f, FixedAbs)
      sqCol == Ix_IsInt(f[rank]) /\ Ix_ImplConverts(f, FixedAbs)
      \* squeeze(-2) then squeeze(-1): torch.squeeze only removes a dimension of size 1
      sq(s, d) == IF Len(s) >= -d /\ s[Len(s) + d + 1] = 1 THEN T_Remove(s, Len(s) + d + 1) ELSE s
      s2 == IF sqRow THEN sq(s1, -2) ELSE s1
      s3 == IF sqCol THEN sq(s2, -1) ELSE s2
  IN s3
=============================================================================
