------------------------------ MODULE MC_C15 ------------------------------
(***************************************************************************)
(* C15 - torch.* dispatch on operators matches the methods, in either      *)
(* argument order.                                                          *)
(*                                                                         *)
(* LODispatch: the table  torch function |-> abstract action  (first-arg   *)
(* and second-arg), with the semantics of LOAlgebra / LOTensor.  The live  *)
(* registration tables are extracted from the module by the harness and     *)
(* passed in as LiveFirst / LiveSecond; TLC checks that they coincide with  *)
(* the table of the specification (TableComplete / TableKnown) and          *)
(* enumerates entry x class x operand order x operand kind with the exact   *)
(* expected dense result of each call.                                      *)
(***************************************************************************)
EXTENDS LOAlgebra, Json

CONSTANTS Tier, Seed, Part, NParts, LiveFirst, LiveSecond

\* ---- the dispatch table of the specification -----------------------------------------------------
SpecFirst == {"abs", "add", "linalg_cholesky", "clone", "diagonal", "div", "linalg_eigh", "linalg_eigvalsh", "exp", "inverse", "isclose",
              "log", "logdet", "matmul", "mul", "numel", "permute", "prod", "linalg_solve", "linalg_solve_triangular", "sqrt", "squeeze",
              "sub", "sum", "linalg_svd", "transpose", "unsqueeze"}
\* second-argument handlers: torch.f(tensor, op) and tensor.<binop>(op)
SpecSecond == {"torch.add", "torch.isclose", "torch.mul", "torch.matmul", "Tensor.matmul", "Tensor.mul", "Tensor.add", "Tensor.sub", "torch.sub"}
\* (stated as state predicates - guarded by a variable - so that TLC checks them as invariants)
TableCompleteC == SpecFirst \subseteq LiveFirst /\ SpecSecond \subseteq LiveSecond      \* nothing the property lists was unregistered
TableKnownC == LiveFirst \subseteq SpecFirst /\ LiveSecond \subseteq SpecSecond        \* nothing registered is unknown to the spec

VARIABLES desc, term, dense, todo, n_logged
vars == <<desc, term, dense, todo, n_logged>>

Cls == <<"Dense", "User", "Diag", "ConstDiag", "Identity", "Zero", "Toeplitz", "Tri", "Chol", "Root", "LowRankRoot",
         "Kron", "KronTri", "KronDiag", "KronAddedDiag", "SumKron", "AddedDiag", "LRRAddedDiag", "Sum", "PsdSum",
         "Matmul", "Mul", "ConstMul", "BlockDiag", "BlockInter", "SumBatch", "BatchRepeat", "Cat", "Interp", "Masked",
         "Perm", "TransPerm", "Kernel", "KernelM">>
PdSet == {"Dense", "Diag", "ConstDiag", "Identity", "Toeplitz", "Chol", "Kron", "KronDiag", "KronAddedDiag", "SumKron", "AddedDiag",
          "LRRAddedDiag", "Sum", "PsdSum", "ConstMul", "BlockDiag", "BlockInter", "BatchRepeat", "Mul"}
DiagSet == {"Diag", "ConstDiag", "Identity", "KronDiag"}
Batches == << <<>>, <<2>> >>
DepthOf(c) == IF c \in G_LeafClasses THEN 0 ELSE 1
N == 4

\* operator operands of torch.matmul(Op, other Op)
Partners == <<"Diag", "BlockDiag", "Dense", "Tri", "ConstDiag", "Kron">>

\* the calls: <<kind, function, variant>>; the operand tensors are derived from the variant number in Eval
Calls(cls, b) ==
  { <<"first", f, v>> : f \in {"add", "sub"}, v \in {1, 2, 3} }                 \* operand: 1 tensor same shape, 2 tensor broadcasting, 3 dense operator
  \cup { <<"first", f, v>> : f \in {"mul", "div"}, v \in {1, 2} }               \* 1 python scalar, 2 zero-dim tensor
  \* elementwise product with a matrix: 3 same shape, 4 N x N without the operator's batch dimensions, 5 a 1 x N row (broadcasting)
  \cup { <<"first", "mul", v>> : v \in {3, 4, 5} } \cup { <<"second", f, 3>> : f \in {"torch.mul", "Tensor.mul"} }
  \cup { <<"first", "matmul", v>> : v \in {1, 2, 3} }                           \* 1 matrix, 2 vector, 3 batched matrix
  \* torch.matmul(Op, other Op) and the reverse order, the other operator taken from classes with their own matmul branches
  \cup { <<"first", "matmul_op", v>> : v \in 1..Len(Partners) } \cup { <<"first", "op_matmul", v>> : v \in 1..Len(Partners) }
  \cup { <<"second", f, v>> : f \in {"torch.add", "torch.sub", "torch.mul", "torch.matmul", "Tensor.add", "Tensor.sub", "Tensor.mul", "Tensor.matmul"},
                               v \in {1, 2} }                                  \* 1 same-shape tensor, 2 broadcasting / vector
  \cup { <<"first", f, 0>> : f \in {"diagonal", "clone", "numel", "transpose", "unsqueeze", "sum_m1", "sum_m2"} }
  \* isclose with the tolerances given positionally, operator first / second: X = A + 1/4, rtol = 0, atol = 1/2 -> all close
  \* (with the default tolerances nothing would be close)
  \cup { <<"first", "isclose", 0>>, <<"second", "torch.isclose", 0>> }
  \cup (IF Len(b) > 0 THEN { <<"first", f, 0>> : f \in {"sum_b", "permute", "squeeze"} } ELSE {})
  \cup (IF cls \in PdSet THEN { <<"first", f, 0>> : f \in {"logdet", "linalg_solve", "linalg_cholesky", "linalg_eigh", "linalg_eigvalsh", "linalg_svd", "inverse"} }
        ELSE {})
  \cup (IF cls \in PdSet /\ Len(b) > 0 THEN { <<"first", "prod", 0>> } ELSE {})
  \cup (IF cls \in DiagSet THEN { <<"first", f, 0>> : f \in {"abs", "exp", "log", "sqrt"} } ELSE {})
  \cup (IF cls \in {"Tri", "KronTri"} THEN { <<"first", "linalg_solve_triangular", v>> : v \in {1, 2} } ELSE {})
  \cup { <<"unregistered", f, 0>> : f \in {"trace", "det", "tril", "cumsum", "flip", "mean", "relu"} }
  \* one-sided functions (registered for the operator as FIRST operand only) called with the operator second: not in SpecSecond, so the
  \* dispatcher has to refuse - never answer with the operands swapped
  \cup { <<"second_refused", f, 0>> : f \in {"torch.div", "torch.linalg.solve", "Tensor.div"} }
  \* a batch of constants of mixed sign (one per batch member, shape b x 1 x 1) on classes that fold constants into their own data
  \cup (IF Len(b) > 0 /\ cls \in {"Root", "LowRankRoot", "Chol", "Dense", "Toeplitz", "Diag", "Kron"} THEN { <<"first", "mul", 6>> } ELSE {})
  \* python scalars that are not exactly representable in float32 (0.1, 1e-50): the scalar must enter in the operator's precision
  \cup { <<"scalar_precision", f, 0>> : f \in {"torch.mul", "torch.mul_second", "torch.div", "tiny"} }
  \* isclose with equal_nan: X = A with one entry replaced by NaN on both sides
  \cup { <<"first", "isclose_nan", 0>> }

Init ==
  /\ \E c \in 1..Len(Cls), bi \in 1..Len(Batches) :
       /\ (Cls[c] = "TransPerm" => Batches[bi] = <<>>)
       /\ ((c * 7 + bi) % NParts = Part)
       /\ desc = [cls |-> Cls[c], b |-> Batches[bi], id |-> c * 8 + bi,
                  dt |-> IF Cls[c] \in {"Perm", "TransPerm"} \/ c % 2 = 1 THEN "f32" ELSE "f64",
                  pd |-> Cls[c] \in PdSet, seed |-> c * 13 + bi * 5]
  /\ term = <<>> /\ dense = <<>> /\ todo = {} /\ n_logged = -1

Construct ==
  /\ n_logged = -1
  /\ term' = G_Term(desc.cls, N, N, desc.b, desc.seed, DepthOf(desc.cls), IF desc.pd THEN 1 ELSE 0)
  /\ dense' = Op_Denote(term')
  /\ todo' = Calls(desc.cls, desc.b)
  /\ n_logged' = 0
  /\ PrintT(ToJson([chk |-> "C15", id |-> desc.id, k |-> 0, desc |-> desc, path |-> Op_Path(term'), term |-> term', dense |-> dense',
                    total |-> Cardinality(todo')]))
  /\ UNCHANGED desc

PartnerTerm(v) == G_Term(Partners[v], N, N, desc.b, desc.seed + 61 + v, IF Partners[v] \in G_LeafClasses THEN 0 ELSE 1, 0)
\* operand tensors
SameT == G_Int(dense.shape, desc.seed + 41)
BcT == G_Int(<<N, N>>, desc.seed + 43)
MatT == G_Int(<<N, 2>>, desc.seed + 45)
VecT == G_Int(<<N>>, desc.seed + 47)
BMatT == G_Int(desc.b \o <<N, 2>>, desc.seed + 49)
LMatT == G_Int(<<2, N>>, desc.seed + 51)
RowT == G_Int(<<1, N>>, desc.seed + 53)
None == [shape |-> <<>>, data |-> <<0>>]

\* [operand, expected]: expected = exact dense result, or [relational |-> TRUE] when judged against `dense` by relation
Eval(c) ==
  LET k == c[1] f == c[2] v == c[3] A == dense R == [relational |-> TRUE] IN
  CASE k = "first" /\ f = "add" -> LET X == IF v = 2 THEN BcT ELSE SameT IN [arg |-> X, expect |-> T_Add(A, X)]
    [] k = "first" /\ f = "sub" -> LET X == IF v = 2 THEN BcT ELSE SameT IN [arg |-> X, expect |-> T_Sub(A, X)]
    [] k = "first" /\ f = "mul" /\ v = 6 -> LET X == T_Make(desc.b \o <<1, 1>>, LAMBDA idx : 3 - 5 * (T_Ravel(idx, desc.b \o <<1, 1>>) % 2)) IN [arg |-> X, expect |-> T_Mul(A, X)]
    [] k = "scalar_precision" -> [arg |-> None, expect |-> R]
    [] k = "first" /\ f = "mul" /\ v >= 3 -> LET X == IF v = 3 THEN SameT ELSE IF v = 4 THEN BcT ELSE RowT IN [arg |-> X, expect |-> T_Mul(A, X)]
    [] k = "first" /\ f = "mul" -> [arg |-> T_Scalar(-2), expect |-> T_Scale(A, -2)]
    [] k = "first" /\ f = "div" -> [arg |-> T_Scalar(4), expect |-> [shape |-> A.shape, data |-> A.data, den |-> 4]]
    [] k = "first" /\ f = "matmul" -> LET X == IF v = 1 THEN MatT ELSE IF v = 2 THEN VecT ELSE BMatT IN [arg |-> X, expect |-> T_MatMulAny(A, X)]
    [] k = "first" /\ f = "matmul_op" -> [arg |-> None, argterm |-> PartnerTerm(v), expect |-> T_MatMulAny(A, Op_Denote(PartnerTerm(v)))]
    [] k = "first" /\ f = "op_matmul" -> [arg |-> None, argterm |-> PartnerTerm(v), expect |-> T_MatMulAny(Op_Denote(PartnerTerm(v)), A)]
    [] k = "second" /\ f \in {"torch.add", "Tensor.add"} -> LET X == IF v = 2 THEN BcT ELSE SameT IN [arg |-> X, expect |-> T_Add(X, A)]
    [] k = "second" /\ f \in {"torch.sub", "Tensor.sub"} -> LET X == IF v = 2 THEN BcT ELSE SameT IN [arg |-> X, expect |-> T_Sub(X, A)]
    [] k = "second" /\ f \in {"torch.mul", "Tensor.mul"} /\ v = 3 -> [arg |-> BcT, expect |-> T_Mul(BcT, A)]
    [] k = "second" /\ f \in {"torch.mul", "Tensor.mul"} -> [arg |-> T_Scalar(3), expect |-> T_Scale(A, 3)]
    [] k = "second" /\ f \in {"torch.matmul", "Tensor.matmul"} -> LET X == IF v = 1 THEN LMatT ELSE VecT IN [arg |-> X, expect |-> T_MatMulAny(X, A)]
    [] f = "isclose_nan" -> [arg |-> A, expect |-> T_Ones(A.shape)]
    [] k = "second_refused" -> [arg |-> SameT, expect |-> R]
    [] f \in {"isclose", "torch.isclose"} -> [arg |-> [shape |-> A.shape, data |-> [i \in 1..Len(A.data) |-> 4 * A.data[i] + 1], den |-> 4],
                                               expect |-> T_Ones(A.shape)]
    [] f = "diagonal" -> [arg |-> None, expect |-> T_Diagonal(A)]
    [] f = "clone" -> [arg |-> None, expect |-> A]
    [] f = "numel" -> [arg |-> None, expect |-> T_Scalar(T_Numel(A))]
    [] f = "transpose" -> [arg |-> None, expect |-> T_Transpose(A)]
    [] f = "unsqueeze" -> [arg |-> None, expect |-> T_Unsqueeze(A, 0)]
    [] f = "sum_m1" -> [arg |-> None, expect |-> T_SumDim(A, -1)]
    [] f = "sum_m2" -> [arg |-> None, expect |-> T_SumDim(A, -2)]
    [] f = "sum_b" -> [arg |-> None, expect |-> T_SumDim(A, 0)]
    [] f = "prod" -> [arg |-> None, expect |-> T_ProdDim(A, 0)]
    [] f = "permute" -> [arg |-> None, expect |-> A]                          \* permute(0, 1, 2): identity permutation of a rank-3 operator
    [] f = "squeeze" -> [arg |-> None, expect |-> A]                          \* squeeze(0) of a size-2 dimension: no-op, as for tensors
    [] f = "linalg_solve" -> [arg |-> MatT, expect |-> R]
    [] f = "linalg_solve_triangular" -> [arg |-> IF v = 1 THEN MatT ELSE LMatT, expect |-> R]
    [] OTHER -> [arg |-> None, expect |-> R]

Call ==
  /\ n_logged >= 0 /\ todo # {}
  /\ LET c == CHOOSE y \in todo : TRUE e == Eval(c)
     IN /\ PrintT(ToJson([id |-> desc.id, k |-> n_logged + 1, kind |-> c[1], func |-> c[2], variant |-> c[3], arg |-> e.arg, expect |-> e.expect,
                             argterm |-> IF "argterm" \in DOMAIN e THEN e.argterm ELSE <<>>]))
        /\ todo' = todo \ {c}
  /\ n_logged' = n_logged + 1
  /\ UNCHANGED <<desc, term, dense>>

Next == Construct \/ Call
Spec == Init /\ [][Next]_vars
TableComplete == (n_logged >= -1) => TableCompleteC
TableKnown == (n_logged >= -1) => TableKnownC
=============================================================================
