------------------------------ MODULE LOUtils ------------------------------
(***************************************************************************)
(* C20 - dense definitions of the utility kernels (linear_operator.utils,  *)
(* linear_operator.dsmm).                                                  *)
(***************************************************************************)
EXTENDS LOOperators

\* d/dc_i of the symmetric Toeplitz matrix: ones on the i-th sub- and super-diagonal (i = 0: identity)
U_ToepDeriv(n, i) == T_Make(<<n, n>>, LAMBDA idx : IF T_Abs(idx[1] - idx[2]) = i THEN 1 ELSE 0)
\* sum_j u_j^T (dT/dc_i) v_j for U, V of shape (.., n, s): result (.., n)
U_ToepDerivQuad(U, V) ==
  LET s == U.shape r == Len(s) n == s[r - 1] b == SubSeq(s, 1, r - 2)
      UV == T_MatMul(U, T_Transpose(V))                                  \* (.., n, n): sum_j u_j v_j^T
  IN T_Make(b \o <<n>>, LAMBDA idx :
       LET i == idx[Len(idx)] bi == SubSeq(idx, 1, Len(idx) - 1)
       IN T_SumSeq([p \in 1..n |-> T_SumSeq([q \in 1..n |-> IF T_Abs((p - 1) - (q - 1)) = i THEN T_At(UV, bi \o <<p - 1, q - 1>>) ELSE 0])]))

\* interpolation products
U_LeftInterp(ix, vals, rhs, m) == T_MatMulAny(Op_InterpW(ix, vals, m), rhs)
U_LeftTInterp(ix, vals, rhs, m) == T_MatMulAny(T_Transpose(Op_InterpW(ix, vals, m)), rhs)
\* sparse matrix with a fixed number of entries per column: (.., num_rows, num_cols)
U_SparseFromIV(ix, vals, numRows) == T_Transpose(Op_InterpW(ix, vals, numRows))

\* permutations: result[.., i, j] = M[.., left[.., i], right[.., j]]
U_ApplyPerm(M, left, right) ==
  LET s == M.shape r == Len(s) b == SubSeq(s, 1, r - 2) nb == Len(b)
      ms == T_BShape(b, T_BShape(T_DropLast(left.shape), T_DropLast(right.shape)))
      os == ms \o <<T_Last(left.shape), T_Last(right.shape)>> no == Len(ms)
  IN T_Make(os, LAMBDA idx :
       LET bi == SubSeq(idx, 1, no) i == idx[no + 1] j == idx[no + 2]
       IN T_At(M, T_BIdx(bi, b) \o <<T_At(left, T_BIdx(bi, T_DropLast(left.shape)) \o <<i>>),
                                      T_At(right, T_BIdx(bi, T_DropLast(right.shape)) \o <<j>>)>>))
U_InvPerm(p) ==
  LET n == T_Last(p.shape) b == T_DropLast(p.shape) nb == Len(b)
  IN T_Make(p.shape, LAMBDA idx :
       LET bi == SubSeq(idx, 1, nb) IN (CHOOSE i \in 0..(n - 1) : T_At(p, bi \o <<i>>) = idx[nb + 1]))
U_Identity(n) == [shape |-> <<n>>, data |-> [k \in 1..n |-> k - 1]]
=============================================================================
