------------------------------ MODULE MC_C10 ------------------------------
(***************************************************************************)
(* C10 - instances, budgets and tolerances for the pivoted-Cholesky state   *)
(* machine (LOPivChol) and the preconditioner built from it.                *)
(* For every instance x rank bound k in 1..n+1 x tolerance TLC explores all *)
(* behaviours of the loop (tie-breaking is the only nondeterminism), checks *)
(* the invariants in every state and prints each terminal state: the pivot  *)
(* sequence of every batch member, the number of steps r and the exact      *)
(* rational matrix A - S = L L^T.  The conformance pass requires the        *)
(* library's (L, permutation) to be one of these behaviours; for the        *)
(* preconditioner of K + D it requires the closure, the operator and the    *)
(* log-determinant to be those of (A - S) + D.                              *)
(***************************************************************************)
EXTENDS LOGen, LOPivChol, Json

CONSTANTS Tier, Seed, Part, NParts
VARIABLES desc, term, dense, mems, m, pc, stopat
vars == <<desc, term, dense, mems, m, pc, stopat>>

\* ---- instance families (small integers: the rational residuals stay far inside 32 bits) ----------------------
Sm(s, seed) == T_Fill(s, seed, -1, 1)
PdSmall(n, b, seed) == LET M == Sm(b \o <<n, n>>, seed) IN T_Add(T_MatMul(M, T_Transpose(M)), T_EyeB(b, n))
LowRank(n, r, b, seed) == LET R == T_Fill(b \o <<n, r>>, seed, -2, 2) IN T_MatMul(R, T_Transpose(R))
\* rank-2 matrix with a guaranteed non-zero diagonal entry
LowRank2(n, b, seed) == T_Add(LowRank(n, 1, b, seed), LET e == T_Make(b \o <<n, 1>>, LAMBDA idx : IF idx[Len(b) + 1] = 0 THEN 1 ELSE 0) IN T_MatMul(e, T_Transpose(e)))
ToepCol(n, b, seed) == LET c == Sm(b \o <<n>>, seed) nb == Len(b)
                       IN T_Make(b \o <<n>>, LAMBDA idx : IF idx[nb + 1] = 0 THEN 2 * n - 1 ELSE T_At(c, idx))
Insts == <<
  [name |-> "dense-full", n |-> 4, b |-> <<>>], [name |-> "dense-lowrank", n |-> 4, b |-> <<>>], [name |-> "toeplitz-tied", n |-> 4, b |-> <<>>],
  [name |-> "dense-batch", n |-> 4, b |-> <<2>>], [name |-> "mixed-rank-batch", n |-> 4, b |-> <<2>>], [name |-> "kron", n |-> 4, b |-> <<>>],
  [name |-> "sum-dense-diag", n |-> 4, b |-> <<>>], [name |-> "root", n |-> 4, b |-> <<>>], [name |-> "diag", n |-> 4, b |-> <<>>],
  [name |-> "constdiag", n |-> 3, b |-> <<>>], [name |-> "dense-5", n |-> 5, b |-> <<>>], [name |-> "dense-3", n |-> 3, b |-> <<2>>],
  [name |-> "dense-1", n |-> 1, b |-> <<>>], [name |-> "dense-2", n |-> 2, b |-> <<>>], [name |-> "toeplitz-batch", n |-> 3, b |-> <<2, 1>>],
  [name |-> "lowrank-batch", n |-> 4, b |-> <<2>>], [name |-> "interp", n |-> 4, b |-> <<>>], [name |-> "blockdiag", n |-> 4, b |-> <<>>],
  \* members of very different magnitude: the stopping rule is relative to EACH member's own largest diagonal entry
  [name |-> "scale-batch", n |-> 4, b |-> <<2>>], [name |-> "scale-batch-3", n |-> 3, b |-> <<3>>],
  \* a constant per batch member times a dense batch (ConstantMulLinearOperator supplies its own approximate diagonal)
  [name |-> "constmul-batch", n |-> 4, b |-> <<2>>], [name |-> "constmul-batch-3", n |-> 3, b |-> <<3>>] >>
InstTerm(i, seed) ==
  LET I == Insts[i] n == I.n b == I.b IN
  CASE I.name \in {"dense-full", "dense-batch", "dense-5", "dense-3", "dense-1", "dense-2"} -> Op_Dense(PdSmall(n, b, seed))
    [] I.name \in {"dense-lowrank", "lowrank-batch"} -> Op_Dense(LowRank2(n, b, seed))
    [] I.name \in {"toeplitz-tied", "toeplitz-batch"} -> Op_Toeplitz(ToepCol(n, b, seed))
    \* member 0 has rank 2, member 1 full rank: the loop must keep going for member 1 after member 0 is exhausted
    [] I.name = "mixed-rank-batch" -> Op_Dense(T_Cat(<<T_Unsqueeze(LowRank2(n, <<>>, seed), 0), T_Unsqueeze(PdSmall(n, <<>>, seed + 1), 0)>>, 0))
    [] I.name = "scale-batch" -> Op_Dense(T_Cat(<<T_Unsqueeze(PdSmall(n, <<>>, seed), 0), T_Unsqueeze(T_Scale(PdSmall(n, <<>>, seed + 1), 8), 0)>>, 0))
    [] I.name = "scale-batch-3" -> Op_Dense(T_Cat(<<T_Unsqueeze(PdSmall(n, <<>>, seed), 0), T_Unsqueeze(T_Scale(PdSmall(n, <<>>, seed + 1), 8), 0),
                                                   T_Unsqueeze(T_Scale(PdSmall(n, <<>>, seed + 2), 3), 0)>>, 0))
    [] I.name \in {"constmul-batch", "constmul-batch-3"} -> Op_ConstMul(Op_Dense(PdSmall(n, b, seed)), T_Fill(b, seed + 3, 1, 3))
    [] I.name = "kron" -> Op_Kron(<<Op_Dense(PdSmall(2, b, seed)), Op_Dense(PdSmall(2, b, seed + 1))>>)
    [] I.name = "sum-dense-diag" -> Op_Sum(<<Op_Dense(PdSmall(n, b, seed)), Op_Diag(T_Fill(b \o <<n>>, seed + 2, 0, 2))>>)
    [] I.name = "root" -> Op_RootT(T_Fill(b \o <<n, 3>>, seed, -1, 1))
    [] I.name = "diag" -> Op_Diag(T_Fill(b \o <<n>>, seed, 1, 3))
    [] I.name = "constdiag" -> Op_ConstDiag(T_Fill(b \o <<1>>, seed, 1, 3), n)
    [] I.name = "interp" -> G_Term("Interp", n, n, b, seed, 0, 1)
    [] I.name = "blockdiag" -> Op_BlockDiag(Op_Dense(PdSmall(2, b \o <<2>>, seed)), -3)

\* tolerances <<num, den>>; "default" is settings.preconditioner_tolerance = 1e-3
Tols == << <<1, 1000>>, <<1, 4>>, <<1, 1000000>> >>
TolName == <<"default", "loose", "tight">>
\* the diagonal part D of the preconditioned operator K + D: none (plain pivoted_cholesky call), constant, per element, batched constant
DModes == <<"none", "const", "elem", "bconst">>
DTerm(mode, n, b, seed) ==
  CASE mode = "const" -> Op_ConstDiag(T_Fill(b \o <<1>>, seed + 11, 2, 3), n)
    [] mode = "elem" -> Op_Diag(T_Fill(b \o <<n>>, seed + 13, 1, 3))
    [] mode = "bconst" -> Op_Diag(T_Expand(T_Fill(b \o <<1>>, seed + 17, 1, 3), b \o <<n>>))     \* constant per member, DiagLinearOperator class

Init ==
  /\ \E i \in 1..Len(Insts), k \in 1..6, ti \in 1..(Len(Tols) + 4), di \in 1..Len(DModes), minsz \in {0, 100}, sd \in {1, 100}, su \in {0, 1} :
       \* "small units": K and D are handed to the library multiplied by 1e-9 (everything the property states is scale-covariant; whether a
       \* diagonal is constant must not be decided with an absolute tolerance)
       /\ (su = 1 => DModes[di] = "elem" /\ sd = 1 /\ minsz = 0 /\ ti = 1)
       /\ k <= Insts[i].n + 1
       \* tolerances 4.. are placed between the residual traces of steps ti-3 and ti-2 of this very instance (see Build)
       /\ (ti > Len(Tols) => ti - Len(Tols) <= Insts[i].n - 2 /\ k > ti - Len(Tols) /\ DModes[di] \in {"none", "elem"})
       \* the operator handed to the library is (1 / sden) * term: the stopping rule is relative, so nothing but the scale of L changes
       /\ (sd # 1 => DModes[di] = "none" /\ (i + k) % 2 = 0)
       /\ ((i + k + ti + di) % NParts = Part)
       /\ (DModes[di] = "none" => minsz = 0)
       /\ (minsz = 100 => k = 2 /\ ti = 1)
       /\ (DModes[di] = "bconst" => Len(Insts[i].b) > 0)
       \* (adding a diagonal to a diagonal operator is a construction AddedDiagLinearOperator itself declares unsupported)
       /\ (DModes[di] # "none" => Insts[i].name \notin {"diag", "constdiag"})
       /\ (Tier = "quick" => (DModes[di] = "none" \/ (i + k + ti) % 3 = 0 \/ (su = 1 /\ (i + k) % 2 = 0)))
       /\ desc = [inst |-> Insts[i].name, n |-> Insts[i].n, b |-> Insts[i].b, k |-> k, ti |-> ti, tol |-> IF ti <= Len(Tols) THEN Tols[ti] ELSE <<0, 1>>,
                  tolname |-> IF ti <= Len(Tols) THEN TolName[ti] ELSE "between-steps",
                  dmode |-> DModes[di], minsize |-> minsz, seed |-> i * 7 + 1, sden |-> sd, small |-> su,
                  id |-> (((((i * 8 + k) * 8 + ti) * 8 + di) * 2 + (IF minsz = 0 THEN 0 ELSE 1)) * 2 + (IF sd = 1 THEN 0 ELSE 1)) * 2 + su]
  /\ term = <<>> /\ dense = <<>> /\ mems = <<>> /\ m = 0 /\ pc = "build" /\ stopat = -1

Build ==
  /\ pc = "build"
  /\ term' = InstTerm(CHOOSE i \in 1..Len(Insts) : Insts[i].name = desc.inst, desc.seed)
  /\ dense' = Op_Denote(term')
  /\ mems' = LET idxs == R_BatchIdx(desc.b) IN [q \in 1..Len(idxs) |-> PC_Member(R_Rows(dense', idxs[q]), desc.sden)]
  /\ m' = 0 /\ stopat' = -1
  /\ IF desc.ti <= Len(Tols) THEN pc' = "loop" /\ UNCHANGED desc
     ELSE LET es == PC_ErrSeq(R_Rows(dense', R_BatchIdx(desc.b)[1])) j == desc.ti - Len(Tols)
          IN IF es[j] = es[j + 1] \/ Q_IsZero(es[j + 1]) THEN pc' = "skip" /\ UNCHANGED desc        \* no tolerance fits strictly between
             ELSE pc' = "loop" /\ desc' = [desc EXCEPT !.tol = PC_Mid(es[j], es[j + 1])]

MaxIter == T_Min(desc.k, desc.n)
\* The loop of the code leaves at the first m with ~PC_Continue (stopat).  The property only says that it may not leave EARLIER than that
\* ("stops early only once the residual trace has dropped below the tolerance"), so the model keeps stepping up to the rank bound and
\* prints every state from stopat on: a result with more columns is still a behaviour of the specification.
Step ==
  /\ pc = "loop" /\ m < MaxIter
  /\ \E ch \in [1..Len(mems) -> 1..desc.n] :
       /\ \A q \in 1..Len(mems) : ch[q] \in PC_Cands(mems[q])
       /\ mems' = [q \in 1..Len(mems) |-> PC_Advance(mems[q], ch[q])]
  /\ m' = m + 1
  /\ stopat' = IF stopat = -1 /\ ~PC_Continue(mems', m + 1, MaxIter, desc.tol) THEN m + 1 ELSE stopat
  /\ pc' = "emit"
  /\ UNCHANGED <<desc, term, dense>>

QFlat(S) == [q \in 1..(Len(S) * Len(S)) |-> S[((q - 1) \div Len(S)) + 1][((q - 1) % Len(S)) + 1]]
Emit ==
  /\ pc = "emit"
  /\ pc' = IF m < MaxIter THEN "loop" ELSE "done"
  /\ (stopat # -1 => PrintT(ToJson([chk |-> "C10", desc |-> desc, path |-> Op_Path(term), term |-> term, dense |-> dense, r |-> m, stopat |-> stopat,
        dterm |-> IF desc.dmode = "none" THEN <<>> ELSE DTerm(desc.dmode, desc.n, desc.b, desc.seed),
        members |-> [q \in 1..Len(mems) |->
           [piv |-> [t \in 1..Len(mems[q].piv) |-> mems[q].piv[t] - 1], deg |-> mems[q].deg,
            resid |-> LET F == QFlat(mems[q].S) IN [num |-> [t \in 1..Len(F) |-> F[t][1]], den |-> [t \in 1..Len(F) |-> F[t][2]]],
            nvalid |-> mems[q].nvalid, errs |-> mems[q].errs]]])))
  /\ UNCHANGED <<desc, term, dense, mems, m, stopat>>

Next == Build \/ Step \/ Emit
Spec == Init /\ [][Next]_vars

\* ---- the property, on the model --------------------------------------------------------------------------
InvPsd == \A q \in 1..Len(mems) : PC_Psd2(mems[q])
InvZeroOnPivots == \A q \in 1..Len(mems) : PC_ZeroOnPivots(mems[q])
InvGreedy == \A q \in 1..Len(mems) : PC_Greedy(mems[q])
InvExactAtFull == \A q \in 1..Len(mems) : PC_ExactAtFull(mems[q])
InvRank == m <= MaxIter \/ pc = "build"
InvStopAt == stopat = -1 \/ (stopat >= 1 /\ stopat <= m)
\* leaving early (fewer steps than the budget) only when every member's relative residual trace is within the tolerance
\* (at the step where the code's rule lets the loop leave before the rank bound, every member is within the tolerance)
InvEarlyStop == (pc = "emit" /\ stopat = m /\ m < MaxIter) => \A q \in 1..Len(mems) : Q_Leq(Q_Div(PC_Trace(mems[q].S, PC_Remaining(desc.n, mems[q].piv)), mems[q].orig), desc.tol)
TraceMonotone == [][pc = "loop" /\ pc' = "emit" =>
                     \A q \in 1..Len(mems) : Q_Leq(PC_Trace(mems'[q].S, 1..desc.n), PC_Trace(mems[q].S, 1..desc.n))]_vars
=============================================================================
