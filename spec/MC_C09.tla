------------------------------ MODULE MC_C09 ------------------------------
(***************************************************************************)
(* C09 - the control layer of LOLanczos for every (n, max_iter, Krylov      *)
(* dimension d): the implementation-shaped loop must stop with exactly      *)
(* r = min(max_iter, n, d) basis vectors.                                   *)
(***************************************************************************)
EXTENDS LOLanczos
CONSTANTS NMax
VARIABLES cfg, s
vars == <<cfg, s>>
Init == /\ cfg \in [n : 1..NMax, max_iter : 1..(NMax + 2), d : 1..NMax]
        /\ cfg.d <= cfg.n
        /\ s = LZ_Init(cfg)
Next == s.phase = "loop" /\ s' = LZ_Step(cfg, s) /\ UNCHANGED cfg
Spec == Init /\ [][Next]_vars
FairSpec == Spec /\ WF_vars(Next)
InvRank == s.phase = "done" => s.r = LZ_Ideal(cfg)
InvNoCrash == s.phase # "crash"
InvStored == s.stored <= LZ_NumIter(cfg) \/ s.phase = "crash"
Termination == <>(s.phase \in {"done", "crash"})
=============================================================================
