------------------------------ MODULE MC_C06 ------------------------------
(***************************************************************************)
(* C06 / C18 - every factorization really factorizes the operator; Gaussian *)
(* sampling uses a true square root of the covariance.                      *)
(* TLC enumerates PSD class x batch x query (with its method argument) x     *)
(* thresholds on both sides of n, together with the RELATION the result      *)
(* must satisfy against the exact matrix A (checked by the projection):      *)
(*   "LLt" lower / "RtR" upper triangular factor, "RRt" root, "RRtInv"      *)
(*   inverse root, "eig" (Q^T Q = I, Q diag(w) Q^T = A), "eigvals", "svd",   *)
(*   "cov" (sampling Jacobian J J^T = A).  exact = FALSE marks Lanczos-type  *)
(*   results, which must equal the orthogonal compression of A onto the      *)
(*   space they span.                                                       *)
(***************************************************************************)
EXTENDS LOGen, LORational, Json

CONSTANTS Tier, Seed, Part, NParts
VARIABLES desc, term, dense, pc
vars == <<desc, term, dense, pc>>
N == 4
Cls == <<"Dense", "Diag", "ConstDiag", "Identity", "Toeplitz", "Chol", "Kron", "KronDiag", "KronAddedDiag", "SumKron", "AddedDiag",
         "LRRAddedDiag", "Sum", "PsdSum", "ConstMul", "BlockDiag", "BlockInter", "BatchRepeat", "Mul", "AddedDiagI", "LRRAddedDiagI", "MixedDef", "LowRankHuge", "BlockDiagRepeat", "BlockInterRepeat", "SumBatchRepeat", "Interp", "Interp2">>
Batches == << <<>>, <<2>> >>
DepthOf(c) == IF c \in G_LeafClasses THEN 0 ELSE 1

\* queries: <<name, method / flag, relation, exact>>
Queries == << <<"cholesky", "lower", "LLt", TRUE>>, <<"cholesky", "upper", "RtR", TRUE>>, <<"linalg_cholesky", "lower", "LLt", TRUE>>,
              <<"root_decomposition", "none", "RRt", TRUE>>, <<"root_decomposition", "cholesky", "RRt", TRUE>>,
              <<"root_decomposition", "symeig", "RRt", TRUE>>, <<"root_decomposition", "lanczos", "RRt", FALSE>>,
              <<"root_decomposition", "pivoted_cholesky", "RRt", TRUE>>, <<"root_decomposition", "diagonalization", "RRt", TRUE>>,
              <<"root_inv_decomposition", "none", "RRtInv", TRUE>>, <<"root_inv_decomposition", "cholesky", "RRtInv", TRUE>>,
              <<"root_inv_decomposition", "symeig", "RRtInv", TRUE>>, <<"root_inv_decomposition", "lanczos", "RRtInv", FALSE>>,
              <<"root_inv_decomposition", "pinverse", "RRtInv", TRUE>>, <<"root_inv_decomposition", "diagonalization", "RRtInv", TRUE>>,
              <<"root_inv_decomposition", "svd", "RRtInv", TRUE>>, <<"root_decomposition", "svd", "RRt", TRUE>>,
              \* a factorization queried after the same factorization of a derived operator that shares this one (K.add_jitter(c).svd(), then K.svd())
              <<"svd_after_jitter_svd", "none", "svd", TRUE>>, <<"eigh_after_jitter_eigh", "none", "eig", TRUE>>,
              <<"eigh", "none", "eig", TRUE>>, <<"linalg_eigh", "none", "eig", TRUE>>, <<"eigvalsh", "none", "eigvals", TRUE>>,
              <<"linalg_eigvalsh", "none", "eigvals", TRUE>>, <<"svd", "none", "svd", TRUE>>, <<"linalg_svd", "none", "svd", TRUE>>,
              <<"diagonalization", "none", "eig", TRUE>>, <<"diagonalization", "symeig", "eig", TRUE>>, <<"diagonalization", "lanczos", "eig", FALSE>>,
              <<"sample", "k1", "cov", TRUE>>, <<"sample", "k2", "cov", TRUE>>, <<"sample_ciq", "k1", "cov", FALSE>>, <<"sample_ciq", "k2", "cov", FALSE>>,
              \* sampling from an object whose diagonalization has been queried before (the sampler then prefers the cached diagonalization)
              <<"sample_after_diag", "k1", "cov", TRUE>>, <<"sample_after_diag", "k2", "cov", TRUE>>,
              \* contour-integral sampling with an active (rank-2 pivoted-Cholesky) preconditioner: operators K + D only
              <<"sample_ciq_precond", "k1", "cov", FALSE>>, <<"sample_ciq_precond", "k2", "cov", FALSE>>,
              \* the root left in the cache by a Lanczos inverse root from ONE supplied start vector (a Krylov-space root: compression relation)
              <<"root_after_inv_vecs1", "none", "RRt", FALSE>>,
              \* draws from c * A (the class's own _mul_constant, then its sampler): covariance c A
              <<"sample_scaled", "k1", "cov", TRUE>>, <<"sample_scaled", "k2", "cov", TRUE>> >>
\* thresholds: max_cholesky_size in {0, default} (sizes on both sides of it), max_root_decomposition_size in {2, default},
\* fast covar_root_decomposition on / off
Thresholds == { [max_chol |-> mc, max_root |-> mr, fast_root |-> fr] : mc \in {0, 800}, mr \in {2, 100}, fr \in BOOLEAN }
ThrId(t) == (IF t.max_chol = 0 THEN 1 ELSE 0) + (IF t.max_root = 2 THEN 2 ELSE 0) + (IF t.fast_root THEN 4 ELSE 0)

\* is the answer a direct (exact) factorization under these thresholds, or may it be a Krylov-space (Lanczos) object?
ExactUnder(q, t) ==
  /\ q[4]
  /\ ~(t.max_chol = 0 /\ q[2] = "none" /\ q[1] \in {"root_decomposition", "root_inv_decomposition", "diagonalization", "sample"})
  /\ ~(t.max_chol = 0 /\ q[1] = "sample_scaled")
  /\ ~(t.max_chol = 0 /\ q[1] = "sample_after_diag")
  \* methods that post-process a default-method decomposition inherit its (Lanczos) nature above max_cholesky_size
  /\ ~(t.max_chol = 0 /\ q[2] \in {"diagonalization", "pinverse"})
  /\ ~(q[2] = "pivoted_cholesky" /\ t.max_root < N)
  \* the generic sampler takes the default root: Lanczos above max_cholesky_size when fast root decompositions are on
  /\ ~(q[1] = "sample" /\ t.max_chol = 0 /\ t.fast_root)

\* homogeneity: the operator actually handed to the library is (1 / sden) * term -- covariances of small magnitude are legal inputs and
\* every relation above is scale-covariant (factors scale with sqrt, eigenvalues linearly); stopping rules must be relative
ScaledCls == {"Dense", "AddedDiag", "Toeplitz", "Kron", "Sum"}
Init ==
  /\ \E ci \in 1..Len(Cls), bi \in 1..Len(Batches), qi \in 1..Len(Queries), t \in Thresholds, sd \in {1, 100000} :
       /\ ((ci + bi + qi + ThrId(t)) % NParts = Part)
       /\ (sd # 1 => Cls[ci] \in ScaledCls /\ Queries[qi][3] # "cov" /\ t.max_root = 100)
       /\ (Tier = "quick" => IF Cls[ci] \in {"MixedDef", "LowRankHuge", "Interp", "Interp2"} \/ Queries[qi][1] = "sample_ciq_precond" THEN TRUE ELSE IF sd = 1 THEN ((ci + qi + ThrId(t) + bi) % 3 = 0)
                             ELSE (Queries[qi][2] = "pivoted_cholesky" \/ (ci + qi + ThrId(t) + bi) % 5 = 0))
       \* the mixed-definiteness batch: Cholesky-type queries on its own batch shape only
       /\ (Cls[ci] = "MixedDef" => bi = 1 /\ sd = 1 /\ Queries[qi][1] \in {"cholesky", "linalg_cholesky"} /\ t.max_chol = 800)
       \* the singular huge-scale matrix: default-method roots and the samplers built on them (Cholesky must fail over to symeig)
       /\ (Cls[ci] = "LowRankHuge" => sd = 1 /\ t.max_chol = 800 /\ t.max_root = 100 /\
              (Queries[qi][1] \in {"root_decomposition", "sample"} /\ Queries[qi][2] \in {"none", "k1", "k2"}))
       /\ (Queries[qi][1] \in {"sample_ciq", "sample_ciq_precond"} => t.max_root = 100 /\ t.max_chol = 800 /\ ~t.fast_root)
       /\ (Queries[qi][1] = "sample_ciq_precond" => Cls[ci] \in {"AddedDiag", "AddedDiagI"})
       \* interpolated operators W K W^T (singular for fewer inducing points than rows): their own sampler only
       \* (and the pivoted-Cholesky root, which must not be built from the class's deliberately approximate diagonal)
       /\ (Cls[ci] \in {"Interp", "Interp2"} => (Queries[qi][1] \in {"sample", "sample_scaled"} \/ (Queries[qi][1] = "root_decomposition" /\ Queries[qi][2] = "pivoted_cholesky"))
                                 /\ sd = 1 /\ t.max_chol = 800)
       /\ desc = [cls |-> Cls[ci], b |-> Batches[bi], query |-> Queries[qi][1], method |-> Queries[qi][2], relation |-> Queries[qi][3],
                  exact |-> ExactUnder(Queries[qi], t), thr |-> t, id |-> (((ci * 4 + bi) * 64 + qi) * 8 + ThrId(t)) * 2 + (IF sd = 1 THEN 0 ELSE 1),
                  sden |-> sd,
                  dt |-> IF (ci + qi) % 3 = 0 THEN "f32" ELSE "f64", seed |-> ci * 13 + bi * 5]
  /\ term = <<>> /\ dense = <<>> /\ pc = 0

Emit ==
  /\ pc = 0 /\ pc' = 1
  /\ term' = G_Term(desc.cls, N, N, desc.b, desc.seed, DepthOf(desc.cls), 1)
  /\ dense' = Op_Denote(term')
  /\ PrintT(ToJson([chk |-> "C06", desc |-> desc, path |-> Op_Path(term'), term |-> term', dense |-> dense']))
  /\ UNCHANGED desc
Next == Emit
Spec == Init /\ [][Next]_vars
InvPSD == pc >= 1 => T_IsSymmetric(dense)
=============================================================================
