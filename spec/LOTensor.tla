---------------------------- MODULE LOTensor ----------------------------
(***************************************************************************)
(* N-dimensional integer tensors with torch semantics.                     *)
(*                                                                         *)
(* A tensor is a record [shape |-> Seq(Nat), data |-> Seq(Int)] holding    *)
(* the entries in row-major order.  All indices handed to T_At are 0-based *)
(* multi-indices (sequences), all dimension arguments `d` are torch-style  *)
(* (0-based, negative counts from the end).  Every operator is prefixed    *)
(* T_ so that nothing clashes with the CommunityModules.                   *)
(*                                                                         *)
(* This module is the S-layer ("ideal semantics") ground truth for the     *)
(* dense meaning of every linear_operator object; values are small         *)
(* integers so every operation is exact here and in float32/float64.       *)
(***************************************************************************)
EXTENDS Integers, Sequences, FiniteSets, TLC

\* VERIF_SEED: perturbs only the *values* of the generated tensors (T_Hash), never the structure of the generated cases
CONSTANT ValSeed

T_Max(a, b) == IF a > b THEN a ELSE b
T_Min(a, b) == IF a < b THEN a ELSE b
T_Abs(a) == IF a < 0 THEN -a ELSE a

RECURSIVE T_Prod(_)
T_Prod(s) == IF Len(s) = 0 THEN 1 ELSE s[1] * T_Prod(Tail(s))

RECURSIVE T_SumSeq(_)
T_SumSeq(s) == IF Len(s) = 0 THEN 0 ELSE s[1] + T_SumSeq(Tail(s))

RECURSIVE T_ProdSeq(_)
T_ProdSeq(s) == IF Len(s) = 0 THEN 1 ELSE s[1] * T_ProdSeq(Tail(s))

T_Numel(t) == T_Prod(t.shape)
T_Rank(t) == Len(t.shape)

\* flat (0-based) index -> 0-based multi-index for shape s
RECURSIVE T_Unravel(_, _)
T_Unravel(k, s) ==
  IF Len(s) = 0 THEN <<>>
  ELSE LET tp == T_Prod(Tail(s)) IN <<k \div tp>> \o T_Unravel(k % tp, Tail(s))

RECURSIVE T_Ravel(_, _)
T_Ravel(idx, s) ==
  IF Len(s) = 0 THEN 0
  ELSE idx[1] * T_Prod(Tail(s)) + T_Ravel(Tail(idx), Tail(s))

T_At(t, idx) == t.data[T_Ravel(idx, t.shape) + 1]

T_Make(s, f(_)) == [shape |-> s, data |-> [k \in 1..T_Prod(s) |-> f(T_Unravel(k - 1, s))]]

T_Scalar(v) == [shape |-> <<>>, data |-> <<v>>]
T_Full(s, v) == [shape |-> s, data |-> [k \in 1..T_Prod(s) |-> v]]
T_Zeros(s) == T_Full(s, 0)
T_Ones(s) == T_Full(s, 1)

\* torch-style dimension -> 1-based position
T_Dim(rank, d) == IF d < 0 THEN rank + d + 1 ELSE d + 1
T_DimOk(rank, d) == d >= -rank /\ d < rank

T_Last(s) == s[Len(s)]
T_Last2(s) == s[Len(s) - 1]
T_Batch(s) == SubSeq(s, 1, Len(s) - 2)
T_DropLast(s) == SubSeq(s, 1, Len(s) - 1)

(***************************************************************************)
(* Broadcasting                                                            *)
(***************************************************************************)
T_PadLeft(s, n) == [i \in 1..(n - Len(s)) |-> 1] \o s
T_BShape(a, b) ==
  LET n == T_Max(Len(a), Len(b)) pa == T_PadLeft(a, n) pb == T_PadLeft(b, n)
  IN [i \in 1..n |-> IF pa[i] = 1 THEN pb[i] ELSE pa[i]]
T_BCompat(a, b) ==
  LET n == T_Max(Len(a), Len(b)) pa == T_PadLeft(a, n) pb == T_PadLeft(b, n)
  IN \A i \in 1..n : pa[i] = pb[i] \/ pa[i] = 1 \/ pb[i] = 1
\* can a tensor of shape a be expanded to shape b?
T_Expandable(a, b) ==
  /\ Len(a) <= Len(b)
  /\ LET pa == T_PadLeft(a, Len(b)) IN \A i \in 1..Len(b) : pa[i] = b[i] \/ pa[i] = 1
\* multi-index over the broadcast shape -> multi-index into a tensor of shape s
T_BIdx(idx, s) ==
  LET off == Len(idx) - Len(s)
  IN [i \in 1..Len(s) |-> IF s[i] = 1 THEN 0 ELSE idx[i + off]]

T_Expand(t, s) == T_Make(s, LAMBDA idx : T_At(t, T_BIdx(idx, t.shape)))

T_Map2(a, b, op(_, _)) ==
  LET s == T_BShape(a.shape, b.shape)
  IN T_Make(s, LAMBDA idx : op(T_At(a, T_BIdx(idx, a.shape)), T_At(b, T_BIdx(idx, b.shape))))
T_Map(a, op(_)) == [shape |-> a.shape, data |-> [k \in 1..Len(a.data) |-> op(a.data[k])]]

T_Add(a, b) == T_Map2(a, b, LAMBDA x, y : x + y)
T_Sub(a, b) == T_Map2(a, b, LAMBDA x, y : x - y)
T_Mul(a, b) == T_Map2(a, b, LAMBDA x, y : x * y)
T_Neg(a) == T_Map(a, LAMBDA x : -x)
T_Scale(a, c) == T_Map(a, LAMBDA x : c * x)

T_Equal(a, b) == a.shape = b.shape /\ \A k \in 1..Len(a.data) : a.data[k] = b.data[k]

(***************************************************************************)
(* Shape manipulation                                                      *)
(***************************************************************************)
T_Reshape(t, s) == [shape |-> s, data |-> t.data]

\* perm: sequence of 0-based source dims (non-negative), as torch.permute
T_Permute(t, perm) ==
  LET r == Len(perm)
      ns == [i \in 1..r |-> t.shape[perm[i] + 1]]
      \* out index idx; source index src[perm[i]+1] = idx[i]
      inv == [j \in 1..r |-> CHOOSE i \in 1..r : perm[i] + 1 = j]
  IN T_Make(ns, LAMBDA idx : T_At(t, [j \in 1..r |-> idx[inv[j]]]))

T_SwapDims(t, d1, d2) ==
  LET r == T_Rank(t) p1 == T_Dim(r, d1) p2 == T_Dim(r, d2)
  IN T_Permute(t, [i \in 1..r |-> IF i = p1 THEN p2 - 1 ELSE IF i = p2 THEN p1 - 1 ELSE i - 1])

T_Transpose(t) == T_SwapDims(t, -2, -1)

\* unsqueeze at torch dim d (d in -(r+1)..r)
T_Unsqueeze(t, d) ==
  LET r == T_Rank(t) p == IF d < 0 THEN r + d + 2 ELSE d + 1
  IN T_Reshape(t, SubSeq(t.shape, 1, p - 1) \o <<1>> \o SubSeq(t.shape, p, r))

\* squeeze torch dim d (no-op when size # 1, like torch)
T_Squeeze(t, d) ==
  LET r == T_Rank(t) p == T_Dim(r, d)
  IN IF t.shape[p] = 1 THEN T_Reshape(t, SubSeq(t.shape, 1, p - 1) \o SubSeq(t.shape, p + 1, r)) ELSE t

\* torch.repeat: reps has length >= rank
T_Repeat(t, reps) ==
  LET n == Len(reps) ps == T_PadLeft(t.shape, n)
      os == [i \in 1..n |-> ps[i] * reps[i]]
      tt == T_Reshape(t, ps)
  IN T_Make(os, LAMBDA idx : T_At(tt, [i \in 1..n |-> idx[i] % ps[i]]))

(***************************************************************************)
(* Reductions                                                              *)
(***************************************************************************)
T_Remove(s, p) == SubSeq(s, 1, p - 1) \o SubSeq(s, p + 1, Len(s))
T_Insert(s, p, v) == SubSeq(s, 1, p - 1) \o <<v>> \o SubSeq(s, p, Len(s))

T_SumDim(t, d) ==
  LET r == T_Rank(t) p == T_Dim(r, d) n == t.shape[p]
  IN T_Make(T_Remove(t.shape, p),
            LAMBDA idx : T_SumSeq([k \in 1..n |-> T_At(t, T_Insert(idx, p, k - 1))]))
T_ProdDim(t, d) ==
  LET r == T_Rank(t) p == T_Dim(r, d) n == t.shape[p]
  IN T_Make(T_Remove(t.shape, p),
            LAMBDA idx : T_ProdSeq([k \in 1..n |-> T_At(t, T_Insert(idx, p, k - 1))]))
T_SumAll(t) == T_SumSeq(t.data)

(***************************************************************************)
(* Selection                                                               *)
(***************************************************************************)
\* t.select(d, i) with i already normalised to 0..size-1
T_Select(t, d, i) ==
  LET r == T_Rank(t) p == T_Dim(r, d)
  IN T_Make(T_Remove(t.shape, p), LAMBDA idx : T_At(t, T_Insert(idx, p, i)))

\* t.index_select(d, ix) with ix a sequence of 0-based normalised indices
T_IndexSelect(t, d, ix) ==
  LET r == T_Rank(t) p == T_Dim(r, d)
  IN T_Make([t.shape EXCEPT ![p] = Len(ix)],
            LAMBDA idx : T_At(t, [idx EXCEPT ![p] = ix[idx[p] + 1]]))

\* python range(start, stop, step) for step > 0 with already clamped bounds
RECURSIVE T_Range(_, _, _)
T_Range(start, stop, step) == IF start >= stop THEN <<>> ELSE <<start>> \o T_Range(start + step, stop, step)

(***************************************************************************)
(* Matrix operations                                                       *)
(***************************************************************************)
\* both operands rank >= 2; batch dims broadcast
T_MatMul(A, B) ==
  LET ba == T_Batch(A.shape) bb == T_Batch(B.shape) bo == T_BShape(ba, bb)
      m == T_Last2(A.shape) kk == T_Last(A.shape) p == T_Last(B.shape)
      nb == Len(bo)
  IN T_Make(bo \o <<m, p>>, LAMBDA idx :
       LET bidx == SubSeq(idx, 1, nb) i == idx[nb + 1] j == idx[nb + 2]
           ia == T_BIdx(bidx, ba) ib == T_BIdx(bidx, bb)
       IN T_SumSeq([k \in 1..kk |-> T_At(A, ia \o <<i, k - 1>>) * T_At(B, ib \o <<k - 1, j>>)]))

\* torch.matmul validity for operands of rank >= 1
T_MatMulOk(sa, sb) ==
  /\ Len(sa) >= 1 /\ Len(sb) >= 1
  /\ IF Len(sa) = 1 /\ Len(sb) = 1 THEN sa[1] = sb[1]
     ELSE IF Len(sb) = 1 THEN T_Last(sa) = sb[1]
     ELSE IF Len(sa) = 1 THEN sa[1] = T_Last2(sb)
     ELSE T_Last(sa) = T_Last2(sb) /\ T_BCompat(T_Batch(sa), T_Batch(sb))

\* torch.matmul with the 1-D rules
T_MatMulAny(A, B) ==
  IF T_Rank(A) = 1 /\ T_Rank(B) = 1
    THEN T_Scalar(T_SumSeq([k \in 1..A.shape[1] |-> A.data[k] * B.data[k]]))
  ELSE IF T_Rank(B) = 1
    THEN T_Squeeze(T_MatMul(A, T_Unsqueeze(B, -1)), -1)
  ELSE IF T_Rank(A) = 1
    THEN T_Squeeze(T_MatMul(T_Unsqueeze(A, 0), B), -2)
  ELSE T_MatMul(A, B)

T_Eye(n) == T_Make(<<n, n>>, LAMBDA idx : IF idx[1] = idx[2] THEN 1 ELSE 0)
T_EyeB(batch, n) == T_Expand(T_Eye(n), batch \o <<n, n>>)

\* last dim -> diagonal matrix
T_DiagEmbed(d) ==
  LET n == T_Last(d.shape) b == T_DropLast(d.shape) nb == Len(b)
  IN T_Make(b \o <<n, n>>, LAMBDA idx :
       IF idx[nb + 1] = idx[nb + 2] THEN T_At(d, SubSeq(idx, 1, nb + 1)) ELSE 0)

\* main diagonal of the last two dims (rectangular allowed)
T_Diagonal(t) ==
  LET b == T_Batch(t.shape) nb == Len(b) n == T_Min(T_Last2(t.shape), T_Last(t.shape))
  IN T_Make(b \o <<n>>, LAMBDA idx : T_At(t, idx \o <<idx[nb + 1]>>))

\* Kronecker product over the last two dims, batch dims broadcast
T_Kron(A, B) ==
  LET ba == T_Batch(A.shape) bb == T_Batch(B.shape) bo == T_BShape(ba, bb) nb == Len(bo)
      ra == T_Last2(A.shape) ca == T_Last(A.shape) rb == T_Last2(B.shape) cb == T_Last(B.shape)
  IN T_Make(bo \o <<ra * rb, ca * cb>>, LAMBDA idx :
       LET bidx == SubSeq(idx, 1, nb) i == idx[nb + 1] j == idx[nb + 2]
       IN T_At(A, T_BIdx(bidx, ba) \o <<i \div rb, j \div cb>>)
          * T_At(B, T_BIdx(bidx, bb) \o <<i % rb, j % cb>>))

\* concatenate a non-empty sequence of tensors along torch dim d
RECURSIVE T_CatOffsets(_, _, _)
T_CatOffsets(ts, p, acc) ==
  IF Len(ts) = 0 THEN <<>> ELSE <<acc>> \o T_CatOffsets(Tail(ts), p, acc + ts[1].shape[p])
T_Cat(ts, d) ==
  LET r == T_Rank(ts[1]) p == T_Dim(r, d)
      offs == T_CatOffsets(ts, p, 0)
      total == offs[Len(ts)] + ts[Len(ts)].shape[p]
      which(i) == CHOOSE k \in 1..Len(ts) : offs[k] <= i /\ i < offs[k] + ts[k].shape[p]
  IN T_Make([ts[1].shape EXCEPT ![p] = total], LAMBDA idx :
       LET k == which(idx[p]) IN T_At(ts[k], [idx EXCEPT ![p] = idx[p] - offs[k]]))

\* stack along a new leading... general: stack at torch dim d
T_Stack(ts, d) == T_Cat([k \in 1..Len(ts) |-> T_Unsqueeze(ts[k], d)], d)

\* lower / upper triangular part
T_Tril(t) == LET nb == Len(T_Batch(t.shape)) IN
  T_Make(t.shape, LAMBDA idx : IF idx[nb + 2] <= idx[nb + 1] THEN T_At(t, idx) ELSE 0)
T_Triu(t) == LET nb == Len(T_Batch(t.shape)) IN
  T_Make(t.shape, LAMBDA idx : IF idx[nb + 2] >= idx[nb + 1] THEN T_At(t, idx) ELSE 0)

T_IsSymmetric(t) == T_Equal(t, T_Transpose(t))

(***************************************************************************)
(* Deterministic value palettes (seeded "pseudo-random" small integers)    *)
(***************************************************************************)
\* value in lo..hi from (seed, k); distinct neighbours so transposition slips show
T_Hash(seed, k) == LET s == (seed + ValSeed * 131) % 9973 IN (s * 7919 + k * 104729 + (k * k) * 31 + (s * k) * 17 + 11) % 1000003
T_Val(seed, k, lo, hi) == lo + (T_Hash(seed, k) % (hi - lo + 1))
T_Fill(s, seed, lo, hi) == [shape |-> s, data |-> [k \in 1..T_Prod(s) |-> T_Val(seed, k, lo, hi)]]
\* entries guaranteed non-zero (for divisors / positive diagonals): values in 1..hi
T_FillPos(s, seed, hi) == T_Fill(s, seed, 1, hi)
=============================================================================
