--------------------------- MODULE LOOperators ---------------------------
(***************************************************************************)
(* The term algebra of linear_operator and its denotation.                 *)
(*                                                                         *)
(* A term is a record                                                      *)
(*    [cls |-> STRING, ops |-> Seq(term), ts |-> Seq(tensor), ks |-> Seq(Int)]*)
(* - `cls` names the operator class (short name, bound to the real         *)
(*   constructor by harness/bind.py),                                      *)
(* - `ops` are the sub-operators, `ts` the tensor arguments (floating or   *)
(*   integer / boolean ones, the binding knows which), `ks` the integer /  *)
(*   boolean (0/1) keyword arguments.                                      *)
(* Op_Denote(t) is the one dense batched matrix the constructor arguments  *)
(* denote under the documented meaning of the structure.  It is written    *)
(* from the class documentation only - never from the implementation's     *)
(* algorithms - and is the oracle for every conformance replay.            *)
(***************************************************************************)
EXTENDS LOTensor

Op_Mk(c, o, t, k) == [cls |-> c, ops |-> o, ts |-> t, ks |-> k]

\* ---- constructors (documented argument order in comments) ----------------
Op_Dense(T) == Op_Mk("Dense", <<>>, <<T>>, <<>>)              \* DenseLinearOperator(tsr)
Op_User(T) == Op_Mk("User", <<>>, <<T>>, <<>>)                \* minimal user subclass: _matmul,_size,_transpose_nonbatch
Op_Diag(d) == Op_Mk("Diag", <<>>, <<d>>, <<>>)                \* DiagLinearOperator(diag)
Op_ConstDiag(v, n) == Op_Mk("ConstDiag", <<>>, <<v>>, <<n>>)  \* ConstantDiagLinearOperator(diag_values[...,1], diag_shape)
Op_Identity(n, b) == Op_Mk("Identity", <<>>, <<>>, <<n>> \o b) \* IdentityLinearOperator(diag_shape, batch_shape)
Op_Zero(s) == Op_Mk("Zero", <<>>, <<>>, s)                    \* ZeroLinearOperator(*sizes)
Op_Toeplitz(c) == Op_Mk("Toeplitz", <<>>, <<c>>, <<>>)        \* ToeplitzLinearOperator(column)
Op_TriT(T, up) == Op_Mk("Tri", <<>>, <<T>>, <<up>>)           \* TriangularLinearOperator(tensor, upper)
Op_TriO(o, up) == Op_Mk("Tri", <<o>>, <<>>, <<up>>)           \* TriangularLinearOperator(operator, upper)
Op_Chol(tri, up) == Op_Mk("Chol", <<tri>>, <<>>, <<up>>)      \* CholLinearOperator(chol, upper)
Op_RootT(R) == Op_Mk("Root", <<>>, <<R>>, <<>>)               \* RootLinearOperator(root tensor)
Op_RootO(o) == Op_Mk("Root", <<o>>, <<>>, <<>>)               \* RootLinearOperator(root operator)
Op_LowRankRoot(R) == Op_Mk("LowRankRoot", <<>>, <<R>>, <<>>)  \* LowRankRootLinearOperator(root)
Op_Kron(os) == Op_Mk("Kron", os, <<>>, <<>>)                  \* KroneckerProductLinearOperator(*ops)
Op_KronTri(os, up) == Op_Mk("KronTri", os, <<>>, <<up>>)      \* KroneckerProductTriangularLinearOperator(*ops, upper)
Op_KronDiag(os) == Op_Mk("KronDiag", os, <<>>, <<>>)          \* KroneckerProductDiagLinearOperator(*diag ops)
Op_KronAddedDiag(k, d) == Op_Mk("KronAddedDiag", <<k, d>>, <<>>, <<>>)
Op_SumKron(os) == Op_Mk("SumKron", os, <<>>, <<>>)            \* SumKroneckerLinearOperator(*kron ops)
Op_AddedDiag(o, d) == Op_Mk("AddedDiag", <<o, d>>, <<>>, <<>>)
Op_LRRAddedDiag(r, d) == Op_Mk("LRRAddedDiag", <<r, d>>, <<>>, <<>>)
Op_Sum(os) == Op_Mk("Sum", os, <<>>, <<>>)
Op_PsdSum(os) == Op_Mk("PsdSum", os, <<>>, <<>>)
Op_Matmul(l, r) == Op_Mk("Matmul", <<l, r>>, <<>>, <<>>)
Op_Mul(l, r) == Op_Mk("Mul", <<l, r>>, <<>>, <<>>)            \* elementwise product
Op_ConstMul(o, c) == Op_Mk("ConstMul", <<o>>, <<c>>, <<>>)    \* ConstantMulLinearOperator(base, constant)
Op_BlockDiag(o, bd) == Op_Mk("BlockDiag", <<o>>, <<>>, <<bd>>)
Op_BlockInter(o, bd) == Op_Mk("BlockInter", <<o>>, <<>>, <<bd>>)
Op_SumBatch(o, bd) == Op_Mk("SumBatch", <<o>>, <<>>, <<bd>>)
Op_BatchRepeat(o, reps) == Op_Mk("BatchRepeat", <<o>>, <<>>, reps)
Op_Cat(os, d) == Op_Mk("Cat", os, <<>>, <<d>>)                \* CatLinearOperator(*ops, dim)
Op_Interp(o, li, lv, ri, rv) == Op_Mk("Interp", <<o>>, <<li, lv, ri, rv>>, <<>>)
\* one-sided interpolation: InterpolatedLinearOperator(base, left_indices, left_values) - the right side is left at its default (identity)
Op_InterpLeft(o, li, lv) == Op_Mk("InterpLeft", <<o>>, <<li, lv>>, <<>>)
Op_Masked(o, rm, cm) == Op_Mk("Masked", <<o>>, <<rm, cm>>, <<>>)
Op_Perm(p) == Op_Mk("Perm", <<>>, <<p>>, <<>>)                \* PermutationLinearOperator(perm)
Op_TransPerm(m) == Op_Mk("TransPerm", <<>>, <<>>, <<m>>)      \* TransposePermutationLinearOperator(m)
Op_Kernel(x1, x2, c, kind) == Op_Mk("Kernel", <<>>, <<x1, x2, c>>, <<kind>>)
\* a kernel whose keyword arguments include a sub-OPERATOR: c * x1 M x2^T with the metric M given as an operator (KernelLinearOperator(..., metric=M, c=c))
Op_KernelM(x1, x2, c, m) == Op_Mk("KernelM", <<m>>, <<x1, x2, c>>, <<>>)

\* ---- documented meaning of the leaf structures ---------------------------
\* symmetric Toeplitz from its first column: T[i,j] = c[|i-j|]
Op_ToeplitzDense(c) ==
  LET n == T_Last(c.shape) b == T_DropLast(c.shape) nb == Len(b)
  IN T_Make(b \o <<n, n>>, LAMBDA idx : T_At(c, SubSeq(idx, 1, nb) \o <<T_Abs(idx[nb + 1] - idx[nb + 2])>>))

\* general Toeplitz from first column and first row: T[i,j] = c[i-j] (i>=j), r[j-i] (j>i)
Op_ToeplitzGeneral(c, r) ==
  LET m == T_Last(c.shape) n == T_Last(r.shape) b == T_DropLast(c.shape) nb == Len(b)
  IN T_Make(b \o <<m, n>>, LAMBDA idx :
       LET i == idx[nb + 1] j == idx[nb + 2] bi == SubSeq(idx, 1, nb)
       IN IF i >= j THEN T_At(c, bi \o <<i - j>>) ELSE T_At(r, bi \o <<j - i>>))

\* block diagonal of a (..., k, m, n) tensor (block dim already at -3)
Op_BlockDiagDense(B) ==
  LET s == B.shape r == Len(s) k == s[r - 2] m == s[r - 1] n == s[r]
      b == SubSeq(s, 1, r - 3) nb == Len(b)
  IN T_Make(b \o <<k * m, k * n>>, LAMBDA idx :
       LET i == idx[nb + 1] j == idx[nb + 2]
       IN IF i \div m = j \div n THEN T_At(B, SubSeq(idx, 1, nb) \o <<i \div m, i % m, j % n>>) ELSE 0)

\* interleaved blocks: entry (i*k + a, j*k + c) = [a = c] * B[a][i, j]
Op_BlockInterDense(B) ==
  LET s == B.shape r == Len(s) k == s[r - 2] m == s[r - 1] n == s[r]
      b == SubSeq(s, 1, r - 3) nb == Len(b)
  IN T_Make(b \o <<k * m, k * n>>, LAMBDA idx :
       LET i == idx[nb + 1] j == idx[nb + 2]
       IN IF i % k = j % k THEN T_At(B, SubSeq(idx, 1, nb) \o <<i % k, i \div k, j \div k>>) ELSE 0)

\* move torch dim bd of a rank-r tensor to position -3 (as the Block classes document)
Op_BlockDimToM3(B, bd) ==
  LET r == T_Rank(B) p == T_Dim(r, bd)   \* 1-based
      perm == [i \in 1..(r - 2) |-> IF i < p THEN i - 1 ELSE IF i < r - 2 THEN i ELSE p - 1]
              \o <<r - 2, r - 1>>
  IN IF p = r - 2 THEN B ELSE T_Permute(B, perm)

\* interpolation matrix W (.., n, m) from indices/values (.., n, k): W[i, idx[i,a]] += val[i,a]
Op_InterpW(ix, vals, m) ==
  LET s == ix.shape r == Len(s) n == s[r - 1] k == s[r] b == SubSeq(s, 1, r - 2) nb == Len(b)
  IN T_Make(b \o <<n, m>>, LAMBDA idx :
       LET bi == SubSeq(idx, 1, nb) i == idx[nb + 1] j == idx[nb + 2]
       IN T_SumSeq([a \in 1..k |-> IF T_At(ix, bi \o <<i, a - 1>>) = j THEN T_At(vals, bi \o <<i, a - 1>>) ELSE 0]))

\* permutation matrix: (P x)[i] = x[perm[i]]  i.e. P[i, perm[i]] = 1
Op_PermDense(p) ==
  LET n == T_Last(p.shape) b == T_DropLast(p.shape) nb == Len(b)
  IN T_Make(b \o <<n, n>>, LAMBDA idx :
       IF T_At(p, SubSeq(idx, 1, nb) \o <<idx[nb + 1]>>) = idx[nb + 2] THEN 1 ELSE 0)

\* P vec(X) = vec(X^T) for m x m X (row-major flatten)
Op_TransPermDense(m) ==
  T_Make(<<m * m, m * m>>, LAMBDA idx :
     LET i == idx[1] j == idx[2] IN IF (i \div m = j % m) /\ (i % m = j \div m) THEN 1 ELSE 0)

\* positions of the TRUE (=1) entries of a 1-D mask, 0-based
RECURSIVE Op_MaskIdx(_, _)
Op_MaskIdx(mask, k) ==
  IF k > Len(mask.data) THEN <<>>
  ELSE (IF mask.data[k] = 1 THEN <<k - 1>> ELSE <<>>) \o Op_MaskIdx(mask, k + 1)

\* integer "kernels" (kind 0: linear  c * x1 x2^T ; kind 1: quadratic c * (x1 x2^T + 1)^2 elementwise)
Op_KernelDense(x1, x2, c, kind) ==
  LET g == T_MatMul(x1, T_Transpose(x2))
      base == IF kind = 0 THEN g ELSE LET g1 == T_Map(g, LAMBDA x : x + 1) IN T_Mul(g1, g1)
  IN T_Mul(T_Unsqueeze(T_Unsqueeze(c, -1), -1), base)

RECURSIVE Op_Denote(_)
Op_SumAll(ds) == LET RECURSIVE go(_) go(k) == IF k = 1 THEN ds[1] ELSE T_Add(go(k - 1), ds[k]) IN go(Len(ds))
Op_KronAll(ds) == LET RECURSIVE go(_) go(k) == IF k = 1 THEN ds[1] ELSE T_Kron(go(k - 1), ds[k]) IN go(Len(ds))

Op_Denote(t) ==
  LET c == t.cls
      D(i) == Op_Denote(t.ops[i])
      Ds == [i \in 1..Len(t.ops) |-> Op_Denote(t.ops[i])]
  IN CASE c = "Dense" -> t.ts[1]
       [] c = "User" -> t.ts[1]
       [] c = "Diag" -> T_DiagEmbed(t.ts[1])
       [] c = "ConstDiag" ->
            T_DiagEmbed(T_Expand(t.ts[1], T_DropLast(t.ts[1].shape) \o <<t.ks[1]>>))
       [] c = "Identity" -> T_EyeB(Tail(t.ks), t.ks[1])
       [] c = "Zero" -> T_Zeros(t.ks)
       [] c = "Toeplitz" -> Op_ToeplitzDense(t.ts[1])
       [] c = "Tri" -> IF Len(t.ops) = 1 THEN D(1) ELSE t.ts[1]
       [] c = "Chol" -> IF t.ks[1] = 1 THEN T_MatMul(T_Transpose(D(1)), D(1))
                                        ELSE T_MatMul(D(1), T_Transpose(D(1)))
       [] c \in {"Root", "LowRankRoot"} ->
            LET R == IF Len(t.ops) = 1 THEN D(1) ELSE t.ts[1] IN T_MatMul(R, T_Transpose(R))
       [] c \in {"Kron", "KronTri", "KronDiag"} -> Op_KronAll(Ds)
       [] c \in {"KronAddedDiag", "SumKron", "AddedDiag", "LRRAddedDiag", "Sum", "PsdSum"} -> Op_SumAll(Ds)
       [] c = "Matmul" -> T_MatMul(D(1), D(2))
       [] c = "Mul" -> T_Mul(D(1), D(2))
       [] c = "ConstMul" -> T_Mul(T_Unsqueeze(T_Unsqueeze(t.ts[1], -1), -1), D(1))
       [] c = "BlockDiag" -> Op_BlockDiagDense(Op_BlockDimToM3(D(1), t.ks[1]))
       [] c = "BlockInter" -> Op_BlockInterDense(Op_BlockDimToM3(D(1), t.ks[1]))
       [] c = "SumBatch" -> T_SumDim(Op_BlockDimToM3(D(1), t.ks[1]), -3)
       [] c = "BatchRepeat" -> T_Repeat(D(1), t.ks \o <<1, 1>>)
       [] c = "Cat" -> T_Cat(Ds, t.ks[1])
       [] c = "InterpLeft" -> LET K == D(1) IN T_MatMul(Op_InterpW(t.ts[1], t.ts[2], T_Last2(K.shape)), K)
       [] c \in {"Interp", "InterpI32"} ->
            LET K == D(1)
                Wl == Op_InterpW(t.ts[1], t.ts[2], T_Last2(K.shape))
                Wr == Op_InterpW(t.ts[3], t.ts[4], T_Last(K.shape))
            IN T_MatMul(T_MatMul(Wl, K), T_Transpose(Wr))
       [] c = "Masked" ->
            T_IndexSelect(T_IndexSelect(D(1), -2, Op_MaskIdx(t.ts[1], 1)), -1, Op_MaskIdx(t.ts[2], 1))
       [] c = "Perm" -> Op_PermDense(t.ts[1])
       [] c = "TransPerm" -> Op_TransPermDense(t.ks[1])
       [] c = "Kernel" -> Op_KernelDense(t.ts[1], t.ts[2], t.ts[3], t.ks[1])
       [] c = "KernelM" -> T_Mul(T_Unsqueeze(T_Unsqueeze(t.ts[3], -1), -1), T_MatMul(T_MatMul(t.ts[1], D(1)), T_Transpose(t.ts[2])))

Op_Shape(t) == Op_Denote(t).shape

\* structural size computed WITHOUT densifying (what .shape must report); used by the
\* invariant  Op_Size(t) = Op_Denote(t).shape  checked by TLC on every generated term
RECURSIVE Op_Size(_)
Op_BShapeAll(ss) == LET RECURSIVE go(_) go(k) == IF k = 1 THEN ss[1] ELSE T_BShape(go(k - 1), ss[k]) IN go(Len(ss))
Op_Size(t) ==
  LET c == t.cls
      S(i) == Op_Size(t.ops[i])
      Ss == [i \in 1..Len(t.ops) |-> Op_Size(t.ops[i])]
      sq(b, n) == b \o <<n, n>>
  IN CASE c \in {"Dense", "User"} -> t.ts[1].shape
       [] c = "Diag" -> sq(T_DropLast(t.ts[1].shape), T_Last(t.ts[1].shape))
       [] c = "ConstDiag" -> sq(T_DropLast(t.ts[1].shape), t.ks[1])
       [] c = "Identity" -> sq(Tail(t.ks), t.ks[1])
       [] c = "Zero" -> t.ks
       [] c = "Toeplitz" -> sq(T_DropLast(t.ts[1].shape), T_Last(t.ts[1].shape))
       [] c = "Tri" -> IF Len(t.ops) = 1 THEN S(1) ELSE t.ts[1].shape
       [] c = "Chol" -> S(1)
       [] c \in {"Root", "LowRankRoot"} ->
            LET rs == IF Len(t.ops) = 1 THEN S(1) ELSE t.ts[1].shape IN sq(T_Batch(rs), T_Last2(rs))
       [] c \in {"Kron", "KronTri", "KronDiag"} ->
            Op_BShapeAll([i \in 1..Len(Ss) |-> T_Batch(Ss[i])])
              \o <<T_ProdSeq([i \in 1..Len(Ss) |-> T_Last2(Ss[i])]), T_ProdSeq([i \in 1..Len(Ss) |-> T_Last(Ss[i])])>>
       [] c \in {"KronAddedDiag", "SumKron", "AddedDiag", "LRRAddedDiag", "Sum", "PsdSum", "Mul"} -> Op_BShapeAll(Ss)
       [] c = "Matmul" -> T_BShape(T_Batch(S(1)), T_Batch(S(2))) \o <<T_Last2(S(1)), T_Last(S(2))>>
       [] c = "ConstMul" -> T_BShape(T_Batch(S(1)), t.ts[1].shape) \o <<T_Last2(S(1)), T_Last(S(1))>>
       [] c \in {"BlockDiag", "BlockInter"} ->
            LET s == S(1) r == Len(s) p == T_Dim(r, t.ks[1])
            IN T_Remove(T_Batch(s), p) \o <<s[p] * s[r - 1], s[p] * s[r]>>
       [] c = "SumBatch" ->
            LET s == S(1) r == Len(s) p == T_Dim(r, t.ks[1]) IN T_Remove(s, p)
       [] c = "BatchRepeat" ->
            LET s == S(1) reps == t.ks n == Len(reps) pb == T_PadLeft(T_Batch(s), n)
            IN [i \in 1..n |-> pb[i] * reps[i]] \o <<T_Last2(s), T_Last(s)>>
       [] c = "Cat" ->
            LET r == Len(Ss[1]) p == T_Dim(r, t.ks[1])
            IN [Ss[1] EXCEPT ![p] = T_SumSeq([i \in 1..Len(Ss) |-> Ss[i][p]])]
       [] c \in {"Interp", "InterpI32"} -> T_DropLast(T_DropLast(t.ts[1].shape)) \o <<T_Last2(t.ts[1].shape), T_Last2(t.ts[3].shape)>>
       [] c = "InterpLeft" -> T_DropLast(T_DropLast(t.ts[1].shape)) \o <<T_Last2(t.ts[1].shape), T_Last(S(1))>>
       [] c = "Masked" -> T_Batch(S(1)) \o <<T_SumSeq(t.ts[1].data), T_SumSeq(t.ts[2].data)>>
       [] c = "Perm" -> sq(T_DropLast(t.ts[1].shape), T_Last(t.ts[1].shape))
       [] c = "TransPerm" -> <<t.ks[1] * t.ks[1], t.ks[1] * t.ks[1]>>
       [] c \in {"Kernel", "KernelM"} ->
            T_BShape(T_BShape(T_Batch(t.ts[1].shape), T_Batch(t.ts[2].shape)), t.ts[3].shape)
              \o <<T_Last2(t.ts[1].shape), T_Last2(t.ts[2].shape)>>

\* the transpose as a *term* (what .mT / _transpose_nonbatch must denote)
Op_TransposeDense(t) == T_Transpose(Op_Denote(t))

\* nesting depth and class path (for coverage accounting and finding signatures)
RECURSIVE Op_Depth(_)
Op_Depth(t) == IF Len(t.ops) = 0 THEN 0
               ELSE 1 + T_SumSeq(<<0>>) + (LET ds == [i \in 1..Len(t.ops) |-> Op_Depth(t.ops[i])]
                                            IN CHOOSE m \in {ds[i] : i \in 1..Len(ds)} : \A i \in 1..Len(ds) : ds[i] <= m)
RECURSIVE Op_Path(_)
Op_Path(t) == IF Len(t.ops) = 0 THEN t.cls
              ELSE LET RECURSIVE go(_) go(k) == IF k > Len(t.ops) THEN "" ELSE (IF k > 1 THEN "," ELSE "") \o Op_Path(t.ops[k]) \o go(k + 1)
                   IN t.cls \o "(" \o go(1) \o ")"
=============================================================================
