------------------------------ MODULE MC_C02 ------------------------------
(***************************************************************************)
(* C02 - composition and structure-preserving rewrites never change the    *)
(* matrix.  Programs of depth 2 over the algebra of LOAlgebra:             *)
(*   fam "bin" : r = a (+|-|@) b   for every ordered pair of classes       *)
(*   fam "tens": r = a (+|-) T, T (+|-) a                                  *)
(*   fam "scal": r = a * c, c * a, a / c for the scalar kinds              *)
(*   fam "un"  : r = unary batch manipulation / diagonal update of a       *)
(*   fam "psd" : r = a .* b, add_low_rank, cat_rows, batch prod (PSD only) *)
(* followed by a second operation on r (the "tail"), so that the lazily    *)
(* built result types are exercised too.  The state is the environment of  *)
(* denotations; every step logs its exact expected dense value.            *)
(***************************************************************************)
EXTENDS LOAlgebra, Json, LORewrite

CONSTANTS Tier, Seed, Part, NParts

VARIABLES desc, ta, tb, da, db, r, pc, hist
vars == <<desc, ta, tb, da, db, r, pc, hist>>

Quick == Tier = "quick"
N == 4
\* top-level classes (depth 1 for composites)
Cls == <<"Dense", "User", "Diag", "ConstDiag", "Identity", "Zero", "Toeplitz", "Tri", "Chol", "Root", "LowRankRoot",
         "Kron", "KronTri", "KronDiag", "KronAddedDiag", "SumKron", "AddedDiag", "LRRAddedDiag", "Sum", "PsdSum",
         "Matmul", "Mul", "ConstMul", "BlockDiag", "BlockInter", "SumBatch", "BatchRepeat", "Cat", "Interp", "Masked",
         "Perm", "TransPerm", "Kernel">>
PdCls == <<"Dense", "Diag", "ConstDiag", "Identity", "Toeplitz", "Chol", "Kron", "KronDiag", "KronAddedDiag", "SumKron",
           "AddedDiag", "LRRAddedDiag", "Sum", "PsdSum", "ConstMul", "BlockDiag", "BlockInter", "BatchRepeat", "Mul">>
NoBatch == {"TransPerm"}
RootLike == {"Root", "LowRankRoot", "Chol"}
PdSet == {PdCls[i] : i \in 1..Len(PdCls)}
DepthOf(c) == IF c \in G_LeafClasses THEN 0 ELSE 1
ModeOf(c) == IF c \in G_PsdOnly THEN 1 ELSE 0

\* batch-shape pairs for the two operands
BPairs == << <<<<>>, <<>>>>, <<<<2>>, <<2>>>>, <<<<2>>, <<>>>>, <<<<>>, <<2>>>>, <<<<2, 1>>, <<3>>>>, <<<<1>>, <<2>>>> >>
BOps == <<"add", "sub", "matmul">>
\* (emul_*: elementwise product with a tensor of the full shape, a 1 x N row, an N x 1 column: broadcasting inside the class-specific _mul_matrix)
TOps == <<"add_t", "radd_t", "sub_t", "rsub_t", "emul_t", "emul_row", "emul_col">>
\* scalar kinds: 1 python float 2.0, 2 python float -3.0, 3 python 0.0, 4 0-d tensor, 5 one-element tensor,
\*               6 batch of constants (b,1,1), 7 batch of constants with a negative and a zero member,
\*               8 batch of constants of mixed sign without zeros (3, -2, 3, ...)
SKinds == 1..8
SOps == <<"mul", "rmul", "div">>
UOps == <<"permute3", "sum_b1", "expand_neg1", "expand_lead", "expand_one", "repeat", "unsqueeze0", "unsqueeze_m3", "squeeze", "permute", "sum_b", "sum_m1",
          "sum_m2", "transpose_b", "add_diag_0d", "add_diag_1", "add_diag_n", "add_diag_b1", "add_diag_bn", "add_jitter">>
POps == <<"mul_op", "add_low_rank", "cat_rows", "prod_b", "mul_t">>
UBatches == << <<>>, <<2>>, <<1, 2>>, <<2, 1>>, <<2, 3, 2>> >>

Mk(fam, a, b, op, bp, k) ==
  [fam |-> fam, a |-> a, b |-> b, op |-> op, bp |-> bp, k |-> k,
   \* permutation operators have a fixed float32 dtype (dtype behaviour is property C14, not C02)
   dt |-> IF k % 2 = 0 /\ a \notin {"Perm", "TransPerm"} /\ b \notin {"Perm", "TransPerm"} THEN "f64" ELSE "f32"]

SpecialCls == {"Diag", "ConstDiag", "Identity", "KronDiag", "BlockDiag", "BlockInter", "Tri", "Kron", "Zero", "Dense", "Toeplitz", "Interp", "Root"}
Pick(d) == \* quick tier: one batch configuration per (family, classes, op), rotating with the seed
  IF ~Quick THEN TRUE
  ELSE CASE d.fam = "bin" -> \/ d.bp = BPairs[(((d.k \div 8)) % Len(BPairs)) + 1]
                             \* classes with type-specific branches in matmul / add: additionally always the plain (no batch) configuration
                             \/ (d.bp = BPairs[1] /\ d.op \in {"matmul", "add"} /\ d.a \in SpecialCls /\ d.b \in SpecialCls)
         [] d.fam = "tens" -> d.bp = BPairs[(((d.k \div 8)) % Len(BPairs)) + 1]
         [] d.fam = "scal" -> d.bp[1] = UBatches[(((d.k \div 4)) % Len(UBatches)) + 1]
         [] d.fam = "un" -> (d.bp[1] = UBatches[(((d.k \div 4)) % Len(UBatches)) + 1] \/ d.op \in {"permute3", "sum_b1"})
         [] d.fam = "psd" -> d.bp[1] = UBatches[(((d.k \div 4)) % Len(UBatches)) + 1]


Ok(d) ==
  /\ (d.a \in NoBatch => d.bp[1] = <<>>)
  /\ (d.b \in NoBatch => d.bp[2] = <<>>)
  /\ (d.fam = "scal" /\ d.bp[2][1] \in {6, 7, 8} => TRUE)
  /\ (d.fam = "scal" /\ d.op = "div" => d.bp[2][1] \notin {2, 3, 7, 8})
  \* x + (root-form operator) is defined through add_low_rank: x ranges over PSD operators (property statement)
  /\ (d.fam = "bin" /\ d.op = "add" /\ d.b \in RootLike => d.a \in PdSet)
  /\ (d.fam = "un" /\ d.op \in {"squeeze", "expand_one"} => Len(d.bp[1]) > 0 /\ \E i \in 1..Len(d.bp[1]) : d.bp[1][i] = 1)
  /\ (d.fam = "un" /\ d.op \in {"permute", "transpose_b"} => Len(d.bp[1]) = 2)
  /\ (d.fam = "un" /\ d.op \in {"permute3", "sum_b1"} => Len(d.bp[1]) = 3)
  \* three batch dimensions only for the operations whose index arithmetic depends on them
  /\ (Len(d.bp[1]) = 3 => (d.fam = "un" /\ d.op \in {"permute3", "sum_b1", "sum_b", "unsqueeze_m3"}))
  /\ (d.fam = "un" /\ d.op \in {"sum_b", "unsqueeze_m3"} => Len(d.bp[1]) > 0)
  /\ (d.fam = "psd" /\ d.op = "prod_b" => Len(d.bp[1]) > 0)
  /\ (d.fam = "psd" /\ d.op # "mul_op" => d.b = PdCls[1])

Shard(d) == ((d.k \div 8) + d.k) % NParts = Part
Good(d) == Ok(d) /\ Pick(d) /\ Shard(d)

InitDesc ==
  \/ \E i \in 1..Len(Cls), j \in 1..Len(Cls), o \in 1..Len(BOps), p \in 1..Len(BPairs) :
        desc = Mk("bin", Cls[i], Cls[j], BOps[o], BPairs[p], ((i * 40 + j) * 4 + o) * 8 + p)
  \/ \E i \in 1..Len(Cls), o \in 1..Len(TOps), p \in 1..Len(BPairs) :
        desc = Mk("tens", Cls[i], "T", TOps[o], BPairs[p], 300000 + (i * 8 + o) * 8 + p)
  \/ \E i \in 1..Len(Cls), o \in 1..Len(SOps), s \in SKinds, p \in 1..Len(UBatches) :
        desc = Mk("scal", Cls[i], "S", SOps[o], <<UBatches[p], <<s>>>>, 400000 + ((i * 4 + o) * 16 + s) * 8 + p)
  \/ \E i \in 1..Len(Cls), o \in 1..Len(UOps), p \in 1..Len(UBatches) :
        desc = Mk("un", Cls[i], "U", UOps[o], <<UBatches[p], <<>>>>, 500000 + (i * 32 + o) * 4 + p)
  \/ \E i \in 1..Len(PdCls), j \in 1..Len(PdCls), o \in 1..Len(POps), p \in 1..Len(UBatches) :
        desc = Mk("psd", PdCls[i], PdCls[j], POps[o], <<UBatches[p], UBatches[p]>>, 600000 + ((i * 32 + j) * 8 + o) * 4 + p)

Init == /\ InitDesc /\ Good(desc)
        /\ ta = <<>> /\ tb = <<>> /\ da = <<>> /\ db = <<>> /\ r = <<>> /\ pc = 0 /\ hist = <<>>

Log(a, arg, e) == hist' = Append(hist, [act |-> a, arg |-> arg, expect |-> e])
sd == desc.k

ModeA == IF desc.fam = "psd" \/ (desc.fam = "bin" /\ desc.op = "add" /\ desc.b \in RootLike) THEN 1 ELSE ModeOf(desc.a)
ModeB == IF desc.fam = "psd" THEN 1 ELSE ModeOf(desc.b)

ConstructA ==
  /\ pc = 0 /\ pc' = 1
  /\ ta' = G_Term(desc.a, N, N, desc.bp[1], sd, DepthOf(desc.a), ModeA)
  /\ da' = Op_Denote(ta')
  /\ Log("construct_a", ta', [shape |-> da'.shape])
  /\ UNCHANGED <<desc, tb, db, r>>

ConstructB ==
  /\ pc = 1 /\ pc' = 2
  /\ IF desc.fam \in {"bin"} \/ (desc.fam = "psd" /\ desc.op = "mul_op")
     THEN /\ tb' = G_Term(desc.b, N, N, desc.bp[2], sd + 501, DepthOf(desc.b), ModeB)
          /\ db' = Op_Denote(tb')
          /\ Log("construct_b", tb', [shape |-> db'.shape])
     ELSE /\ tb' = <<>> /\ db' = <<>> /\ hist' = hist
  /\ UNCHANGED <<desc, ta, da, r>>

\* ---- the scalar / tensor operands --------------------------------------
ScalarT(kind) ==
  LET b == desc.bp[1] IN
  CASE kind = 1 -> T_Scalar(2)
    [] kind = 2 -> T_Scalar(-3)
    [] kind = 3 -> T_Scalar(0)
    [] kind = 4 -> T_Scalar(IF desc.op = "div" THEN 4 ELSE 3)
    [] kind = 5 -> [shape |-> <<1>>, data |-> <<-2>>]
    [] kind = 6 -> T_Make(b \o <<1, 1>>, LAMBDA idx : 2 + 2 * (T_Ravel(idx, b \o <<1, 1>>) % 2))
    [] kind = 7 -> T_Make(b \o <<1, 1>>, LAMBDA idx : (T_Ravel(idx, b \o <<1, 1>>) % 3) - 1)
    [] kind = 8 -> T_Make(b \o <<1, 1>>, LAMBDA idx : 3 - 5 * (T_Ravel(idx, b \o <<1, 1>>) % 2))

\* a / c for exact power-of-two c is expressed as (a * num) with den: we only divide by 2, 4, -2 -> scale by den 4
DivNum(c) == T_Map(c, LAMBDA x : 4 \div x)    \* 4/x is an integer for x in {2, 4, -2, 1, -1, -4}

TensOperand == G_Int((IF desc.bp[2] = <<>> THEN <<>> ELSE desc.bp[2]) \o <<N, N>>, sd + 77)

TensRow == G_Int((IF desc.bp[2] = <<>> THEN <<>> ELSE desc.bp[2]) \o <<1, N>>, sd + 78)
TensCol == G_Int((IF desc.bp[2] = <<>> THEN <<>> ELSE desc.bp[2]) \o <<N, 1>>, sd + 79)

Apply ==
  /\ pc = 2 /\ pc' = 3
  /\ LET f == desc.fam op == desc.op n == N b == desc.bp[1] IN
     CASE f = "bin" ->
            LET e == IF op = "add" THEN Al_Add(da, db) ELSE IF op = "sub" THEN Al_Sub(da, db) ELSE Al_MatMul(da, db)
            \* (for +: the class the rewrite rules of LORewrite predict for the result; reported as drift only)
            IN r' = e /\ Log(op, IF op = "add" THEN <<RW_AddOuter(ta, tb, TRUE)>> ELSE <<>>, e)
       [] f = "tens" ->
            LET T == TensOperand
                e == CASE op = "add_t" -> Al_Add(da, T) [] op = "radd_t" -> Al_Add(T, da)
                       [] op = "sub_t" -> Al_Sub(da, T) [] op = "rsub_t" -> Al_Sub(T, da)
                       [] op = "emul_t" -> Al_MulElem(da, T)
                       [] op = "emul_row" -> Al_MulElem(da, TensRow) [] op = "emul_col" -> Al_MulElem(da, TensCol)
                arg == IF op = "emul_row" THEN TensRow ELSE IF op = "emul_col" THEN TensCol ELSE T
            IN r' = e /\ Log(op, arg, e)
       [] f = "scal" ->
            LET kind == desc.bp[2][1] c == ScalarT(kind)
            IN IF op = "div"
               THEN LET e4 == T_Mul(da, DivNum(c)) IN r' = e4 /\ Log(op, [kind |-> kind, c |-> c], [shape |-> e4.shape, data |-> e4.data, den |-> 4])
               ELSE LET e == Al_ScalarMul(da, c) IN r' = e /\ Log(op, [kind |-> kind, c |-> c], e)
       [] f = "un" ->
            LET nb == Len(b) IN
            (CASE op = "expand_neg1" -> LET sz == <<3>> \o [i \in 1..(nb + 2) |-> -1] e == Al_Expand(da, sz) IN r' = e /\ Log(op, sz, e)
              [] op = "expand_lead" -> LET sz == <<3>> \o b \o <<n, n>> e == Al_Expand(da, sz) IN r' = e /\ Log(op, sz, e)
              [] op = "expand_one" -> LET sz == [i \in 1..nb |-> IF b[i] = 1 THEN 3 ELSE b[i]] \o <<n, n>> e == Al_Expand(da, sz) IN r' = e /\ Log(op, sz, e)
              [] op = "repeat" -> LET reps == <<2>> \o [i \in 1..nb |-> IF i = 1 THEN 2 ELSE 1] \o <<1, 1>> e == Al_Repeat(da, reps) IN r' = e /\ Log(op, reps, e)
              [] op = "unsqueeze0" -> LET e == Al_Unsqueeze(da, 0) IN r' = e /\ Log(op, 0, e)
              [] op = "unsqueeze_m3" -> LET e == Al_Unsqueeze(da, -3) IN r' = e /\ Log(op, -3, e)
              [] op = "squeeze" -> LET d == (CHOOSE i \in 1..nb : b[i] = 1) - 1 e == Al_Squeeze(da, d) IN r' = e /\ Log(op, d, e)
              [] op = "permute" -> LET pm == <<1, 0, 2, 3>> e == Al_Permute(da, pm) IN r' = e /\ Log(op, pm, e)
              [] op = "permute3" -> LET pm == <<1, 2, 0, 3, 4>> e == Al_Permute(da, pm) IN r' = e /\ Log("permute", pm, e)
              [] op = "sum_b1" -> LET e == Al_Sum(da, 1) IN r' = e /\ Log("sum_b", 1, e)
              [] op = "transpose_b" -> LET e == Al_Transpose(da, 0, 1) IN r' = e /\ Log(op, <<0, 1>>, e)
              [] op = "sum_b" -> LET e == Al_Sum(da, 0) IN r' = e /\ Log(op, 0, e)
              [] op = "sum_m1" -> LET e == Al_Sum(da, -1) IN r' = e /\ Log(op, -1, e)
              [] op = "sum_m2" -> LET e == Al_Sum(da, -2) IN r' = e /\ Log(op, -2, e)
              [] op = "add_diag_0d" -> LET d == T_Scalar(3) e == Al_AddDiagonal(da, d) IN r' = e /\ Log("add_diagonal", d, e)
              [] op = "add_diag_1" -> LET d == [shape |-> <<1>>, data |-> <<-2>>] e == Al_AddDiagonal(da, d) IN r' = e /\ Log("add_diagonal", d, e)
              [] op = "add_diag_n" -> LET d == G_Int(<<n>>, sd + 5) e == Al_AddDiagonal(da, d) IN r' = e /\ Log("add_diagonal", d, e)
              [] op = "add_diag_b1" -> LET d == G_Int(b \o <<1>>, sd + 5) e == Al_AddDiagonal(da, d) IN r' = e /\ Log("add_diagonal", d, e)
              [] op = "add_diag_bn" -> LET d == G_Int(b \o <<n>>, sd + 5) e == Al_AddDiagonal(da, d) IN r' = e /\ Log("add_diagonal", d, e)
              [] op = "add_jitter" -> LET e == Al_AddDiagonal(da, T_Scalar(2)) IN r' = e /\ Log(op, 2, e))
       [] f = "psd" ->
            (CASE op = "mul_op" -> LET e == Al_MulElem(da, db) IN r' = e /\ Log(op, <<>>, e)
              [] op = "mul_t" -> LET T == G_PdDense(n, <<>>, sd + 9) e == Al_MulElem(da, T) IN r' = e /\ Log(op, T, e)
              [] op = "add_low_rank" -> LET V == G_Small(<<n, 2>>, sd + 9) e == Al_AddLowRank(da, V) IN r' = e /\ Log(op, V, e)
              [] op = "cat_rows" ->
                   LET cross == T_Fill(b \o <<2, n>>, sd + 9, -1, 1)
                       new == T_Add(T_Scale(T_EyeB(b, 2), 20), T_Fill(b \o <<2, 2>>, 3, 1, 1))
                       e == Al_CatRows(da, cross, new)
                   IN r' = e /\ Log(op, [cross |-> cross, new |-> new], e)
              [] op = "prod_b" -> LET e == Al_Prod(da, 0) IN r' = e /\ Log(op, 0, e))
  /\ UNCHANGED <<desc, ta, tb, da, db>>

\* ---- the tail: a second operation on the result (kept an operator where the library returns one) ----
TailOp ==
  /\ pc = 3 /\ pc' = 4
  /\ LET rk == T_Rank(r) sq == rk >= 2 /\ T_Last(r.shape) = T_Last2(r.shape)
         t == desc.k % 7
     IN IF rk < 2 \/ desc.op = "div" THEN hist' = hist
        ELSE CASE t = 0 -> LET X == G_Int(<<T_Last(r.shape), 2>>, sd + 31) IN Log("tail_matmul", X, T_MatMulAny(r, X))
               [] t = 1 -> IF sq THEN LET d == G_Int(<<T_Last(r.shape)>>, sd + 33) IN Log("tail_add_diagonal", d, Al_AddDiagonal(r, d))
                           ELSE Log("tail_transpose", <<>>, T_Transpose(r))
               [] t = 2 -> Log("tail_mul", T_Scalar(-2), T_Scale(r, -2))
               [] t = 3 -> LET T == G_Int(<<T_Last2(r.shape), T_Last(r.shape)>>, sd + 35) IN Log("tail_rsub_t", T, T_Sub(T, r))
               [] t = 4 -> LET X == G_Int(<<T_Last2(r.shape)>>, sd + 37) IN Log("tail_t_matmul", X, T_MatMulAny(T_Transpose(r), X))
               \* batch reductions / batch indexing of the lazily built result
               [] t = 5 -> IF rk > 2 THEN Log("tail_sum_b", 0, T_SumDim(r, 0)) ELSE Log("tail_transpose", <<>>, T_Transpose(r))
               [] t = 6 -> IF rk > 2 THEN Log("tail_getitem_b", r.shape[1] - 1, T_Select(r, 0, r.shape[1] - 1))
                           ELSE Log("tail_mul", T_Scalar(-2), T_Scale(r, -2))
  /\ UNCHANGED <<desc, ta, tb, da, db, r>>

\* ---- a second tail for the operations whose result carries derived state: the Gram matrix of the root  ----
\* ---- decomposition of a PSD-family result must still be the result (cat_rows / add_low_rank install a ----
\* ---- root in the cache), and a repeated / expanded operator repeated again with more leading dims     ----
TailOp2 ==
  /\ pc = 4 /\ pc' = 5
  /\ LET rk == T_Rank(r) IN
     IF desc.fam = "psd" /\ rk >= 2 THEN Log("tail_root_gram", <<>>, r)
     ELSE IF desc.fam = "un" /\ desc.op \in {"repeat", "expand_lead", "expand_one", "unsqueeze0"} /\ rk >= 3
          THEN LET reps == <<2>> \o [i \in 1..rk |-> IF i = 1 THEN 3 ELSE 1] IN Log("tail_repeat", reps, Al_Repeat(r, reps))
          ELSE hist' = hist
  /\ UNCHANGED <<desc, ta, tb, da, db, r>>

Emit == /\ pc = 5 /\ pc' = 6 /\ UNCHANGED <<desc, ta, tb, da, db, r, hist>>
        /\ PrintT(ToJson([chk |-> "C02", desc |-> desc, steps |-> hist]))

Next == ConstructA \/ ConstructB \/ Apply \/ TailOp \/ TailOp2 \/ Emit
Spec == Init /\ [][Next]_vars

\* ---- invariants of the algebra (checked by TLC on every state) ---------
InvSizeA == pc >= 1 => Op_Size(ta) = da.shape
InvSizeB == (pc >= 2 /\ tb # <<>>) => Op_Size(tb) = db.shape
\* subtraction is addition of the negation; addition commutes (spec self-consistency)
InvAlgebra == (pc >= 3 /\ desc.fam = "bin" /\ desc.op = "sub") => T_Equal(r, T_Add(da, T_Neg(db)))
InvCommute == (pc >= 3 /\ desc.fam = "bin" /\ desc.op = "add") => T_Equal(r, T_Add(db, da))
=============================================================================
