------------------------------- MODULE LOCG -------------------------------
(***************************************************************************)
(* C08 - conjugate gradients (utils/linear_cg.py).                          *)
(*                                                                         *)
(* Two layers.                                                             *)
(*  (1) CONTROL: the loop of linear_cg as a state machine over abstract     *)
(*      per-iteration observations                                          *)
(*         below  - the mean residual norm is below the tolerance           *)
(*         small  - the newest off-diagonal Lanczos coefficient is < 1e-6   *)
(*      with state (k, n_iter, tolReached, updateTri, lastTri, phase).      *)
(*      MC_C08 lets TLC choose every observation sequence and checks the    *)
(*      control invariants; variants # "code" are slips that must break one.*)
(*  (2) PROPERTY CLAUSES over recorded executions.  A trace is the sequence *)
(*      of results of the same call with iteration budgets 1, 2, ..., K     *)
(*      (each a complete execution; the arithmetic is deterministic, so the *)
(*      result with budget j is the j-th iterate).  Magnitudes are logged   *)
(*      lg-encoded: lg(x) = round(1000 * log2(x)), so every clause is an    *)
(*      integer comparison TLC evaluates exactly.  Trace_C08 steps through  *)
(*      the trace and names the first clause that fails.                    *)
(***************************************************************************)
EXTENDS Integers, Sequences, FiniteSets, TLC

CONSTANTS CgVariant   \* "code" | "exit_at_10" | "no_tridiag_guard" | "lost_warning" | "tri_keeps_updating"

Min2(a, b) == IF a < b THEN a ELSE b

\* ---- (1) control ----------------------------------------------------------------------------------------
\* cfg: [n, max_iter, max_tri, n_tri, by_size, all_conv0 (every column converged before the first iteration), nan]
CG_Raises(cfg) == cfg.max_tri > cfg.max_iter \/ cfg.nan
CG_NIter(cfg) == IF cfg.all_conv0 /\ cfg.n_tri = 0 THEN 0
                 ELSE IF cfg.by_size THEN Min2(cfg.max_iter, cfg.n) ELSE cfg.max_iter
CG_NTriIter(cfg) == Min2(cfg.max_tri, cfg.n)
CG_Init(cfg) == [phase |-> IF CG_Raises(cfg) THEN "raised" ELSE IF CG_NIter(cfg) = 0 THEN "done" ELSE "loop",
                 k |-> 0, iters |-> 0, reached |-> FALSE, upd |-> TRUE, last |-> 0]
\* may the loop leave at iteration k on the tolerance?
CG_ExitOk(cfg, k) ==
  /\ k >= (IF CgVariant = "exit_at_10" THEN 10 ELSE Min2(10, cfg.max_iter - 1))
  /\ (CgVariant = "no_tridiag_guard" \/ ~(cfg.n_tri > 0 /\ k < Min2(CG_NTriIter(cfg), cfg.max_iter - 1)))
\* one iteration; obs = [below |-> BOOLEAN, small |-> BOOLEAN]
CG_Iter(cfg, s, obs) ==
  IF obs.below /\ CG_ExitOk(cfg, s.k)
  THEN [s EXCEPT !.phase = "done", !.iters = s.k + 1, !.reached = TRUE]
  ELSE LET tri == cfg.n_tri > 0 /\ s.k < CG_NTriIter(cfg) /\ s.upd
           s1 == [s EXCEPT !.last = IF tri THEN s.k ELSE s.last,
                           !.upd = IF tri /\ s.k > 0 /\ obs.small /\ CgVariant # "tri_keeps_updating" THEN FALSE ELSE s.upd,
                           !.k = s.k + 1, !.iters = s.k + 1]
       IN IF s.k + 1 = CG_NIter(cfg) THEN [s1 EXCEPT !.phase = "done"] ELSE s1
CG_Warned(cfg, s) == IF CgVariant = "lost_warning" THEN FALSE ELSE ~s.reached /\ CG_NIter(cfg) > 0
CG_TSide(s) == s.last + 1

\* control invariants (checked by TLC on every reachable state of MC_C08)
CG_InvMinIters(cfg, s) == s.reached => s.iters - 1 >= Min2(10, cfg.max_iter - 1)
CG_InvTriBudget(cfg, s) == (s.reached /\ cfg.n_tri > 0) => s.iters - 1 >= Min2(CG_NTriIter(cfg), cfg.max_iter - 1)
CG_InvIters(cfg, s) == s.iters <= CG_NIter(cfg) /\ (s.phase = "done" /\ ~s.reached => s.iters = CG_NIter(cfg))
CG_InvTSide(cfg, s) == cfg.n_tri > 0 => (CG_TSide(s) >= 1 /\ CG_TSide(s) <= Min2(cfg.max_tri, cfg.n) /\ CG_TSide(s) <= s.iters + 1)

\* ---- (2) property clauses over lg-encoded observations ------------------------------------------------------
LgTwo == 1000                \* lg(2)
MonoSlack == 3               \* factor 1.002: rounding in the recorded norms
BoundSlack == 30             \* factor 1.02
\* is the column still above its accuracy floor (so that the convergence clauses apply)?
CL_Above(res, floor) == res > floor
\* A-norm error (relative to the initial error) never increases from one budget to the next, above the floor
CL_Mono(prevErr, err, prevRes, floor) == CL_Above(prevRes, floor) => err <= prevErr + MonoSlack
\* classical bound  err_j <= 2 rho^j  with rho = (sqrt(kappa) - 1) / (sqrt(kappa) + 1), lgrho = lg(rho) <= 0
CL_Bound(err, j, lgrho, res, floor) == CL_Above(res, floor) => err <= LgTwo + j * lgrho + BoundSlack
\* finishing without a warning means the mean relative residual is below the tolerance (1% band for the recorded norms)
CL_NoWarn(warned, meanres, lgtol) == ~warned => meanres <= lgtol + 15
=============================================================================
