------------------------------ MODULE MC_C19 ------------------------------
(***************************************************************************)
(* C19 - incompatible shapes and out-of-range indices raise.               *)
(* For every operator class and every operation taking a second operand or *)
(* an index, TLC enumerates the operand shapes / index values (bounded rank *)
(* and size) that torch REJECTS for the densified operator - decided by the *)
(* validity predicates of LOTensor / LOAlgebra / LOIndex - and logs the     *)
(* expectation "raises".  One behaviour = one operator instance followed by *)
(* all its invalid calls.                                                  *)
(***************************************************************************)
EXTENDS LOAlgebra, LOIndex, Json

CONSTANTS Tier, Seed, Part, NParts

VARIABLES desc, term, dense, todo, n_logged
vars == <<desc, term, dense, todo, n_logged>>
Quick == Tier = "quick"

Cls == <<"Dense", "User", "Diag", "ConstDiag", "Identity", "Zero", "Toeplitz", "Tri", "Chol", "Root", "LowRankRoot",
         "Kron", "KronTri", "KronDiag", "KronAddedDiag", "SumKron", "AddedDiag", "LRRAddedDiag", "Sum", "PsdSum",
         "Matmul", "Mul", "ConstMul", "BlockDiag", "BlockInter", "SumBatch", "BatchRepeat", "Cat", "Interp", "Masked",
         "Perm", "TransPerm", "Kernel">>
RectCls == <<"Dense", "User", "Zero", "Kron", "Sum", "Matmul", "ConstMul", "SumBatch", "Cat", "Interp", "Kernel">>
Batches == << <<>>, <<2>> >>
DepthOf(c) == IF c \in G_LeafClasses THEN 0 ELSE 1
ModeOf(c) == IF c \in G_PsdOnly THEN 1 ELSE 0

\* universe of candidate second-operand shapes: rank 1..3 over sizes {1, 2, 3, 4, 5}
Sz == {1, 2, 3, 4, 5}
Shapes1 == {<<a>> : a \in Sz}
Shapes2 == {<<a, b>> : a \in Sz, b \in {1, 2, 4}}
Shapes3 == {<<c, a, b>> : c \in {1, 2, 3}, a \in {1, 3, 4, 5}, b \in {1, 2, 4}}
AllShapes == Shapes1 \cup Shapes2 \cup Shapes3

\* the work list: <<op, operand-shape-or-index>>
Ops(shape) ==
  LET m == T_Last2(shape) n == T_Last(shape) b == T_Batch(shape) sq == m = n IN
  { <<"matmul", s>> : s \in {x \in AllShapes : ~T_MatMulOk(shape, x)} }
  \cup { <<"rmatmul", s>> : s \in {x \in AllShapes : ~T_MatMulOk(x, shape)} }
  \cup { <<"add_t", s>> : s \in {x \in Shapes2 \cup Shapes3 : ~T_BCompat(shape, x)} }
  \cup { <<"mul_t", s>> : s \in {x \in Shapes2 \cup Shapes3 : ~T_BCompat(shape, x) /\ x # <<1, 1>>} }
  \* (torch.linalg.solve reads a right-hand side of shape batch x n as a batch of vectors)
  \cup (IF sq THEN { <<"solve", s>> : s \in {x \in AllShapes : ~T_MatMulOk(shape, x) /\ x # b \o <<n>>} }
               \cup { <<"add_diagonal", s>> : s \in {x \in Shapes1 \cup Shapes2 : ~T_BCompat(b \o <<n>>, x)} }
               \* quadratic forms / solves with a wrong number of rows, among them multiples and divisors of n (which a reshape would swallow)
               \cup { <<a, b \o <<r, 2>>>> : a \in {"inv_quad", "inv_quad_logdet", "solve"}, r \in {2 * n, n + 1, n \div 2, 1} \ {n} }
        ELSE { <<"solve", <<n, 1>>>>, <<"logdet", <<>>>>, <<"inv_quad", <<m, 1>>>>, <<"add_diagonal", <<1>>>>, <<"cholesky", <<>>>>,
               <<"root_decomposition", <<>>>> })
  \* "+" / "-" with another OPERATOR whose matrix size does not broadcast: <<class code, size>>, codes 1 ConstantDiag, 2 Identity, 3 Diag, 4 Dense, 5 Zero;
  \* and the same after add_jitter (the sum is then routed through the diagonal part)
  \cup { <<a, <<pc, sz>>>> : a \in {"add_op", "sub_op", "jitter_add_op"}, pc \in 1..5, sz \in {x \in {1, 2, 3, 5} : ~T_BCompat(shape, <<x, x>>)} }
  \cup { <<"expand", s>> : s \in {x \in Shapes3 : ~T_Expandable(shape, x)} }
  \* -1 ("keep this size") is only meaningful for an existing dimension: in a new leading dimension torch refuses it
  \cup { <<"expand", <<-1>> \o shape>>, <<"expand", <<2, -1>> \o shape>> }
  \cup { <<"cat_rows_dim", <<m, n + 1>>>>, <<"cat_cols_dim", <<m + 1, n>>>> }
  \cup UNION { { <<"getitem_int", <<p, v>>>> : v \in {shape[p], shape[p] + 2, -shape[p] - 1} } : p \in 1..Len(shape) }
  \cup UNION { { <<"getitem_ten", <<p, v>>>> : v \in {shape[p], -shape[p] - 1} } : p \in 1..Len(shape) }

RECURSIVE SetToSeqSmall(_)
SetToSeqSmall(S) == IF S = {} THEN <<>> ELSE LET x == CHOOSE y \in S : TRUE IN <<x>> \o SetToSeqSmall(S \ {x})

Init ==
  /\ \/ \E c \in 1..Len(Cls), bi \in 1..Len(Batches) :
          /\ (Cls[c] = "TransPerm" => Batches[bi] = <<>>)
          /\ ((c * 7 + bi) % NParts = Part)
          /\ desc = [cls |-> Cls[c], mn |-> <<4, 4>>, b |-> Batches[bi], id |-> c * 8 + bi, dt |-> IF c % 2 = 0 THEN "f64" ELSE "f32",
                     debug |-> (c + bi) % 2, seed |-> c * 13 + bi * 5]
     \/ \E c \in 1..Len(RectCls), bi \in 1..Len(Batches) :
          /\ ((c * 5 + bi + 3) % NParts = Part)
          /\ desc = [cls |-> RectCls[c], mn |-> <<2, 3>>, b |-> Batches[bi], id |-> 1000 + c * 8 + bi, dt |-> "f64",
                     debug |-> (c + bi) % 2, seed |-> c * 11 + bi * 3]
  /\ term = <<>> /\ dense = <<>> /\ todo = {} /\ n_logged = -1

Construct ==
  /\ n_logged = -1
  /\ term' = G_Term(desc.cls, desc.mn[1], desc.mn[2], desc.b, desc.seed, DepthOf(desc.cls), ModeOf(desc.cls))
  /\ dense' = Op_Denote(term')
  /\ todo' = Ops(dense'.shape)
  /\ n_logged' = 0
  /\ PrintT(ToJson([chk |-> "C19", id |-> desc.id, k |-> 0, desc |-> desc, path |-> Op_Path(term'), term |-> term', shape |-> dense'.shape,
                    total |-> Cardinality(todo')]))
  /\ UNCHANGED desc

\* each invalid call is one action: the expected observation is "raises"
BadCall ==
  /\ n_logged >= 0 /\ todo # {}
  /\ LET x == CHOOSE y \in todo : TRUE
     IN /\ PrintT(ToJson([id |-> desc.id, k |-> n_logged + 1, act |-> x[1], arg |-> x[2], expect |-> [raises |-> TRUE]]))
        /\ todo' = todo \ {x}
  /\ n_logged' = n_logged + 1
  /\ UNCHANGED <<desc, term, dense>>

Next == Construct \/ BadCall
Spec == Init /\ [][Next]_vars
\* every logged call is indeed invalid for torch on the dense operands (self-check of the enumeration)
InvAllInvalid == \A x \in todo :
   LET o == x[1] s == x[2] IN
   (o = "matmul" => ~T_MatMulOk(dense.shape, s)) /\ (o = "rmatmul" => ~T_MatMulOk(s, dense.shape))
=============================================================================
