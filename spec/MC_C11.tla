------------------------------ MODULE MC_C11 ------------------------------
(***************************************************************************)
(* C11 - (a) every shape case of minres with its documented output shape    *)
(* (printed for the replay); (b) the control layer over all observation     *)
(* sequences with its invariants.                                           *)
(***************************************************************************)
EXTENDS LOMinres, Json
CONSTANTS Mode      \* "shapes" | "control"
VARIABLES c, s
vars == <<c, s>>

OpBatches == {<<>>, <<2>>, <<2, 1>>}
RhsKinds == { [batch |-> <<>>, cols |-> 0], [batch |-> <<>>, cols |-> 1], [batch |-> <<>>, cols |-> 3],
              [batch |-> <<2>>, cols |-> 2], [batch |-> <<3, 1>>, cols |-> 2] }
\* <<-1>> = shifts not given
ShiftShapes == {<<-1>>, <<>>, <<1>>, <<3>>, <<1, 2>>, <<4, 2>>, <<2, 1, 1>>}
Compatible(a, b) == LET k == Max2(Len(a), Len(b)) x == PadL(a, k) y == PadL(b, k) IN \A i \in 1..k : x[i] = y[i] \/ x[i] = 1 \/ y[i] = 1

InitShapes ==
  /\ \E ob \in OpBatches, r \in RhsKinds, sh \in ShiftShapes, n \in {1, 5} :
       /\ Compatible(ob, r.batch)
       /\ (r.cols = 0 => r.batch = <<>> /\ ob = <<>>)
       /\ LET sb == IF sh = <<-1>> \/ Len(sh) <= 1 THEN <<>> ELSE Tail(sh) IN
            /\ Compatible(Bcast(ob, r.batch), sb)
            \* the shift tensor is padded on the right to the rank of the product: its batch part may not be longer than the batch
            \* (a partial shift batch would be aligned with the LEADING batch dimensions, against the broadcasting convention: only shift
            \*  batches of full batch rank - or none - are specified)
            /\ (Len(sb) = 0 \/ Len(sb) = Len(Bcast(ob, r.batch)))
       /\ c = [opb |-> ob, rhs |-> r, shifts |-> sh, n |-> n, expect |-> MR_OutShape(ob, n, r, sh)]
  /\ s = [i |-> 0, phase |-> "emit"]
InitControl ==
  /\ \E n \in {1, 3, 9, 12, 25}, mi \in {1, 5, 10, 11, 30, 1000} : c = [n |-> n, max_iter |-> mi]
  /\ s = [i |-> 0, phase |-> "loop"]
Init == IF Mode = "shapes" THEN InitShapes ELSE InitControl

Emit == Mode = "shapes" /\ s.phase = "emit" /\ PrintT(ToJson([chk |-> "C11", case |-> c])) /\ s' = [s EXCEPT !.phase = "done"] /\ UNCHANGED c
Iter == Mode = "control" /\ s.phase = "loop" /\ \E conv \in BOOLEAN : s' = MR_Step(c.n, c.max_iter, s, conv) /\ UNCHANGED c
Next == Emit \/ Iter
Spec == Init /\ [][Next]_vars
FairSpec == Spec /\ WF_vars(Next)
Termination == <>(s.phase # "loop" /\ s.phase # "emit")

\* never more iterations than min(max_iter, n + 1) + 2, and exactly that many unless a convergence test succeeded
InvBudget == Mode = "control" => (s.i <= Min2(c.max_iter, c.n + 1) + 2 /\ (s.phase = "budget" => s.i = Min2(c.max_iter, c.n + 1) + 2))
\* a convergence exit happens only at iterations 10, 20, ...
InvCheckpoints == (Mode = "control" /\ s.phase = "converged") => s.i % 10 = 0
\* the leading shift dimension is present exactly when several shifts are given
InvShiftDim == Mode = "shapes" =>
   LET nshift == IF c.shifts = <<-1>> THEN 1 ELSE SeqProd(c.shifts)
       base == Bcast(Bcast(c.opb, c.rhs.batch), IF c.shifts = <<-1>> \/ Len(c.shifts) <= 1 THEN <<>> ELSE Tail(c.shifts))
   IN Len(c.expect) = Len(base) + 1 + (IF c.rhs.cols = 0 THEN 0 ELSE 1) + (IF nshift > 1 THEN 1 ELSE 0)
=============================================================================
