------------------------------ MODULE MC_C08 ------------------------------
(***************************************************************************)
(* C08 - exhaustive exploration of the control layer of LOCG: TLC chooses   *)
(* the configuration (n, max_iter, max_tridiag_iter, n_tridiag,             *)
(* terminate_cg_by_size, initially-converged, NaN) and EVERY sequence of    *)
(* per-iteration observations, and checks the control invariants in every   *)
(* state.  It also prints the scenario descriptors that the conformance     *)
(* pass realises with concrete matrices.                                    *)
(***************************************************************************)
EXTENDS LOCG, Json

CONSTANTS MaxIterBound, Emit
VARIABLES cfg, s, hist
vars == <<cfg, s, hist>>

Cfgs == [n : {1, 3, 12, 20}, max_iter : 1..MaxIterBound, max_tri : {1, 2, 4, 11, 13}, n_tri : {0, 1}, by_size : BOOLEAN,
         all_conv0 : BOOLEAN, nan : BOOLEAN]
Init == cfg \in Cfgs /\ s = CG_Init(cfg) /\ hist = <<>>
Iter == /\ s.phase = "loop"
        /\ \E b \in BOOLEAN, sm \in BOOLEAN :
             /\ s' = CG_Iter(cfg, s, [below |-> b, small |-> sm])
             /\ hist' = Append(hist, <<b, sm>>)
        /\ UNCHANGED cfg
Next == Iter
Spec == Init /\ [][Next]_vars
FairSpec == Spec /\ WF_vars(Next)
\* the loop always ends (by the tolerance exit or by exhausting n_iter), whatever the observations are
Termination == <>(s.phase \in {"done", "raised"})

InvMinIters == CG_InvMinIters(cfg, s)
InvTriBudget == CG_InvTriBudget(cfg, s)
InvIters == CG_InvIters(cfg, s)
InvTSide == CG_InvTSide(cfg, s)
\* a warning is issued exactly when iterations ran and the tolerance exit was not taken
InvWarn == s.phase = "done" => (CG_Warned(cfg, s) <=> (~s.reached /\ s.iters > 0))
\* inconsistent limits and NaNs raise before any iteration
InvRaise == (s.phase = "raised") <=> (cfg.max_tri > cfg.max_iter \/ cfg.nan)
\* no spurious warning: when every iteration saw the mean residual below the tolerance (and no tridiagonal is requested) the loop
\* ends by the tolerance exit - also when max_iter is smaller than the 10 mandatory iterations
\* (TLC shows this fails for the code's rule when terminate_cg_by_size cuts the budget below max_iter - e.g. n = 1, max_iter = 2 warns
\*  although the 1 x 1 system is solved: the exit test uses max_iter - 1, not n_iter - 1.  The property does not forbid a superfluous
\*  warning, so the invariant is stated for budgets that are not cut and the observation is recorded in DESIGN.md.)
InvNoSpuriousWarn == (s.phase = "done" /\ s.iters > 0 /\ cfg.n_tri = 0 /\ CG_NIter(cfg) = cfg.max_iter /\ \A i \in 1..Len(hist) : hist[i][1]) => s.reached
\* observation histories are irrelevant for the state space: hide them
View == <<cfg, s, \A i \in 1..Len(hist) : hist[i][1]>>
=============================================================================
