------------------------------ MODULE MC_C01 ------------------------------
(***************************************************************************)
(* C01 - every operator acts as the dense matrix it represents.            *)
(*                                                                         *)
(* State machine: a case descriptor is chosen (Init, cheap), the term is   *)
(* constructed, and then the public observations of property C01 are taken *)
(* one action at a time (shape attributes, to_dense, op @ X for each kind  *)
(* of right-hand side, X @ op, op.mT @ X, op.mT.to_dense()).  Every action  *)
(* appends [act, args, expect] to `hist`; the finished behaviour is printed *)
(* as JSON and replayed step by step into the real library.                *)
(* TLC checks the S-layer invariants on every state.                       *)
(***************************************************************************)
EXTENDS LOGen, Json

CONSTANTS Tier,      \* "quick" | "thorough"
          Seed,      \* integer seeding the value palettes
          Part, NParts \* this run enumerates the cases with index % NParts = Part (sharding)

VARIABLES desc, term, dense, pc, hist
vars == <<desc, term, dense, pc, hist>>

Quick == Tier = "quick"
Sizes == IF Quick THEN <<<<1, 1>>, <<3, 3>>, <<4, 4>>, <<2, 3>>, <<6, 4>>>>
         ELSE <<<<1, 1>>, <<2, 2>>, <<3, 3>>, <<4, 4>>, <<6, 6>>, <<2, 3>>, <<3, 2>>, <<1, 3>>, <<4, 6>>, <<6, 4>>>>
Batches == IF Quick THEN <<<<>>, <<2>>, <<2, 1>>, <<1, 3>>, <<2, 3>>>>
           ELSE <<<<>>, <<2>>, <<1>>, <<2, 1>>, <<1, 3>>, <<2, 3>>>>
Depths == IF Quick THEN <<0, 1>> ELSE <<0, 1, 2>>
SeedsPer == IF Quick THEN 1 ELSE 2
Dts == <<"f64", "f32">>

ClassOk(cls, mn, depth, bb) ==
  /\ (cls = "TransPerm" => bb = <<>>)
  /\ (cls \in G_SquareOnly => mn[1] = mn[2])
  /\ (cls = "TransPerm" => mn[1] \in {1, 4})
  /\ (cls \in G_LeafClasses => depth = 0)
  /\ (cls \notin G_LeafClasses /\ cls \notin {"Tri", "Root"} => depth >= 1)
  /\ (cls \in {"Kron3"} => mn[1] \in {4, 6})
  /\ (mn[1] = 6 \/ mn[2] = 6 => cls \in {"Kron", "Kron3", "KronTri", "KronDiag", "KronAddedDiag", "SumKron", "BlockDiag", "BlockInter"})

Descs ==
  { [cls |-> G_AllClasses[c], mn |-> Sizes[s], b |-> Batches[bi], depth |-> Depths[d], dt |-> Dts[t],
     seed |-> k * 97 + c * 13 + s * 7 + bi * 3 + d,
     id |-> ((((c * 16 + s) * 8 + bi) * 4 + d) * 2 + t) * 4 + k]
    : c \in 1..Len(G_AllClasses), s \in 1..Len(Sizes), bi \in 1..Len(Batches), d \in 1..Len(Depths),
      t \in 1..Len(Dts), k \in 1..SeedsPer }

MyDescs == { x \in Descs : ClassOk(x.cls, x.mn, x.depth, x.b) /\ (x.id % NParts = Part)
                           /\ (Quick => (x.dt = "f64" \/ x.depth = 0)) }

Mode(cls) == IF cls \in G_PsdOnly THEN 1 ELSE 0

Init == /\ desc \in MyDescs
        /\ term = <<>> /\ dense = <<>> /\ pc = 0 /\ hist = <<>>

Log(a, arg, e) == hist' = Append(hist, [act |-> a, arg |-> arg, expect |-> e])

Construct ==
  /\ pc = 0
  /\ term' = G_Term(desc.cls, desc.mn[1], desc.mn[2], desc.b, desc.seed, desc.depth, Mode(desc.cls))
  /\ dense' = Op_Denote(term')
  /\ pc' = 1
  /\ Log("construct", <<>>, [shape |-> dense'.shape])
  /\ UNCHANGED desc

dm == T_Last2(dense.shape)
dn == T_Last(dense.shape)
db == T_Batch(dense.shape)
\* a shape that broadcasts against b with an extra leading dim
XB == <<3>> \o [i \in 1..Len(db) |-> IF i = 1 THEN 1 ELSE db[i]]

RhsShapes == << <<dn>>, <<dn, 2>>, db \o <<dn, 1>>, XB \o <<dn, 2>> >>
LhsShapes == << <<dm>>, <<2, dm>>, XB \o <<1, dm>> >>
TRhsShapes == << <<dm>>, db \o <<dm, 2>> >>

Step(k, act, X, e) == pc = k /\ pc' = k + 1 /\ Log(act, X, e) /\ UNCHANGED <<desc, term, dense>>

ToDense == Step(1, "to_dense", <<>>, dense)
Matmul(i) == LET X == G_Int(RhsShapes[i], desc.seed + 50 + i) IN Step(1 + i, "matmul", X, T_MatMulAny(dense, X))
RMatmul(i) == LET X == G_Int(LhsShapes[i], desc.seed + 60 + i) IN Step(5 + i, "rmatmul", X, T_MatMulAny(X, dense))
TMatmul(i) == LET X == G_Int(TRhsShapes[i], desc.seed + 70 + i) IN Step(8 + i, "t_matmul", X, T_MatMulAny(T_Transpose(dense), X))
TDense == Step(11, "t_to_dense", <<>>, T_Transpose(dense))
Emit == /\ pc = 12 /\ pc' = 13 /\ UNCHANGED <<desc, term, dense, hist>>
        /\ PrintT(ToJson([chk |-> "C01", desc |-> desc, path |-> Op_Path(term), term |-> term, steps |-> hist]))

Next == \/ Construct \/ ToDense
        \/ \E i \in 1..4 : Matmul(i)
        \/ \E i \in 1..3 : RMatmul(i)
        \/ \E i \in 1..2 : TMatmul(i)
        \/ TDense \/ Emit

Spec == Init /\ [][Next]_vars

\* ---- invariants (S-layer self-consistency, checked by TLC on every state) ----
InvSize == pc >= 1 => Op_Size(term) = dense.shape
InvRequestedShape == pc >= 1 => dense.shape = desc.b \o desc.mn
InvPsd == (pc >= 1 /\ Mode(desc.cls) = 1) => T_IsSymmetric(dense)
=============================================================================
