------------------------------ MODULE LOCache ------------------------------
(***************************************************************************)
(* C12 - cached results are transparent: answers do not depend on the query *)
(* history.                                                                 *)
(*                                                                         *)
(* State: a family of operator objects (a base object and the objects       *)
(* derived from it), each with its exact dense denotation and a model of    *)
(* its memoize cache; `cur` is the object the next query goes to.           *)
(* S-layer: the answer to a query is a function of (denotation of the       *)
(*   queried object, query, arguments) only.                                *)
(* M-layer: utils/memoize.py: an entry is stored under (name, args) when the *)
(*   decorated method honours its arguments and under the bare name when it  *)
(*   does not (the table Honors is extracted from the live classes by the    *)
(*   harness and passed in as a constant); a later query with the same key   *)
(*   is answered from the cache.  CacheValid: every entry was computed for   *)
(*   the object holding it and with arguments that make it a correct answer  *)
(*   for every query that maps to its key.                                   *)
(* TLC explores every history up to Depth over the query / derivation /      *)
(* settings alphabet and prints it with the exact dense matrix of every      *)
(* object, for the replay.                                                  *)
(***************************************************************************)
EXTENDS LOAlgebra, LOIndex, Json

CONSTANTS Depth, Emit, Inst,     \* Inst: index of the operator instance family
          FamilyOn,              \* TRUE: additionally emit the "derived-then-parent" family of histories (see FamilyStep)
          H_cholesky, H_root, H_rootinv, H_diag, H_svd, H_todense,   \* TRUE = the cache key includes the call arguments
          DiagLike,              \* the class is diagonal: upper and lower Cholesky factors coincide
          Seed

Honors == [n \in {"cholesky", "root_decomposition", "root_inv_decomposition", "diagonalization", "svd", "to_dense", "none"} |->
             CASE n = "cholesky" -> H_cholesky [] n = "root_decomposition" -> H_root [] n = "root_inv_decomposition" -> H_rootinv
               [] n = "diagonalization" -> H_diag [] n = "svd" -> H_svd [] n = "to_dense" -> H_todense [] OTHER -> TRUE]

\* ---- the alphabet -----------------------------------------------------------------------------------
\* queries: <<name, arg>>; arg distinguishes semantically different answers
Queries == << <<"to_dense", 0>>,
              <<"cholesky", 0>>, <<"cholesky", 1>>,                           \* arg = upper
              <<"root_decomposition", 0>>, <<"root_decomposition", 1>>, <<"root_decomposition", 2>>,  \* method: None, cholesky, symeig
              \* method "lanczos" with a budget of 2 < n (max_root_decomposition_size): a rank-2 Krylov root, passed POSITIONALLY
              <<"root_decomposition", 3>>,
              <<"root_inv_decomposition", 0>>, <<"root_inv_decomposition", 1>>, <<"root_inv_decomposition", 2>>,
              <<"diagonalization", 0>>, <<"diagonalization", 2>>,              \* method: None, symeig
              <<"diagonalization", 3>>,                                         \* "lanczos" with a budget of 2 < n, passed positionally
              <<"svd", 0>>, <<"eigh", 0>>, <<"solve", 0>>, <<"logdet", 0>>, <<"inv_quad_logdet", 0>>, <<"diagonal", 0>>,
              <<"sample", 0>>,
              \* inverse root by Lanczos from ONE caller-supplied probe vector (its by-product is cached as the operator's root)
              <<"root_inv_decomposition_vecs", 0>> >>
\* does an answer computed with argument a answer a query with argument b of the same name correctly?
\* (any root is a root and any diagonalization is one, whatever the method; a Cholesky factor has an orientation)
\* (... except a deliberately truncated Lanczos root, which answers only the query that asked for it)
SemOk(name, a, b) == IF name = "cholesky" /\ ~DiagLike THEN a = b
                     ELSE IF name \in {"root_decomposition", "diagonalization"} /\ a = 3 THEN b = 3 ELSE TRUE
\* which cache names a query reads / writes (the public method may differ from the cached name)
CacheName(q) ==
  CASE q[1] = "cholesky" -> "cholesky"
    [] q[1] \in {"root_decomposition", "root_inv_decomposition", "diagonalization", "svd", "to_dense"} -> q[1]
    [] OTHER -> "none"
Derivs == <<"add_jitter", "add_diagonal", "add_low_rank", "cat_rows", "getitem", "transpose", "mul", "expand">>
\* settings toggles that change which algorithm later queries select
Toggles == <<"max_cholesky_size_0", "fast_root_off">>

\* ---- instances (PD, exact integers) -----------------------------------------------------------------
N == 4
InstCls == <<"Dense", "Kron", "AddedDiag", "Toeplitz", "Chol", "KronAddedDiag", "Diag", "BlockDiag", "LRRAddedDiag", "Sum", "ConstMul", "BatchRepeat">>
InstB == << <<>>, <<>>, <<2>>, <<>>, <<>>, <<>>, <<2>>, <<>>, <<>>, <<2>>, <<>>, <<2>> >>
InstTerm == G_Term(InstCls[Inst], N, N, InstB[Inst], Inst * 7, IF InstCls[Inst] \in G_LeafClasses THEN 0 ELSE 1, 1)

VARIABLES objs,    \* sequence of [den: tensor, parent: Nat, how: deriv name or "base", cache: set of [key, arg, of]]
          cur, toggles, hist, term
vars == <<objs, cur, toggles, hist, term>>

Init == /\ term = <<>> /\ objs = <<>> /\ cur = 0 /\ toggles = {} /\ hist = <<>>

Construct ==
  /\ cur = 0
  /\ term' = InstTerm
  /\ objs' = <<[den |-> Op_Denote(term'), parent |-> 0, how |-> "base", cache |-> {}]>>
  /\ cur' = 1 /\ UNCHANGED <<toggles, hist>>

KeyOf(q) == IF Honors[CacheName(q)] THEN <<CacheName(q), q[2]>> ELSE <<CacheName(q), -1>>

\* ---- Query: M-layer cache access; the logged expectation is the S-layer one -----------------------
Query(qi) ==
  LET q == Queries[qi] o == objs[cur] nm == CacheName(q) IN
  /\ cur >= 1 /\ Len(hist) < Depth
  /\ (q[1] \in {"diagonal", "to_dense", "solve", "logdet", "inv_quad_logdet"} \/ TRUE)
  /\ IF nm = "none" \/ (\E e \in o.cache : e.key = KeyOf(q))
     THEN objs' = objs
     ELSE objs' = [objs EXCEPT ![cur].cache = @ \cup {[key |-> KeyOf(q), arg |-> q[2], name |-> q[1], of |-> cur]}]
  /\ hist' = Append(hist, [act |-> "query", name |-> q[1], arg |-> q[2], obj |-> cur, den |-> <<>>])
  /\ UNCHANGED <<cur, toggles, term>>

\* ---- Derive: a new object; the code carries over cached factors only through add_low_rank / cat_rows, where it
\*      transforms them into factors of the new matrix (so the carried entry belongs to the new object) -----------
DerivedDen(d, A) ==
  LET n == T_Last(A.shape) b == T_Batch(A.shape) IN
  CASE d = "add_jitter" -> Al_AddDiagonal(A, T_Scalar(1))
    [] d = "add_diagonal" -> Al_AddDiagonal(A, G_Pos(<<n>>, 3))
    [] d = "add_low_rank" -> Al_AddLowRank(A, G_Small(<<n, 1>>, 5))
    \* two rows are appended (the Cholesky-based transplant of the roots in cat_rows is only taken for >= 2 new rows)
    \* (for the Cholesky-operator instance the smallest eigenvalue of A is not bounded below by 1, so the cross block is zero there to
    \*  keep the bordered matrix positive definite)
    [] d = "cat_rows" -> Al_CatRows(A, IF InstCls[Inst] = "Chol" THEN T_Zeros(b \o <<2, n>>) ELSE T_Fill(b \o <<2, n>>, 9, -1, 1),
                                   T_Add(T_Scale(T_EyeB(b, 2), 19), T_Ones(b \o <<2, 2>>)))
    [] d = "getitem" -> Ix_Result(A, <<Ix_Ell, Ix_Sl(Ix_None, n - 1, Ix_None), Ix_Sl(Ix_None, n - 1, Ix_None)>>)
    [] d = "transpose" -> T_Transpose(A)
    [] d = "mul" -> T_Scale(A, 2)
    [] d = "expand" -> T_Expand(A, <<2>> \o A.shape)

Derive(di) ==
  LET d == Derivs[di] o == objs[cur] new == Len(objs) + 1
      carried == IF d \in {"add_low_rank", "cat_rows"}
                 THEN {[key |-> e.key, arg |-> e.arg, name |-> e.name, of |-> new] :
                          e \in {x \in o.cache : x.name \in {"root_decomposition", "root_inv_decomposition"}}}
                 ELSE {}
  IN
  /\ cur >= 1 /\ Len(hist) < Depth - 1 /\ Len(objs) < 3
  /\ (d = "expand" => Len(T_Batch(o.den.shape)) = 0)
  /\ (d = "getitem" => T_Last(o.den.shape) = N)
  /\ objs' = Append(objs, [den |-> DerivedDen(d, o.den), parent |-> cur, how |-> d, cache |-> carried])
  /\ cur' = new
  /\ hist' = Append(hist, [act |-> "derive", name |-> d, arg |-> 0, obj |-> new, den |-> DerivedDen(d, o.den)])
  /\ UNCHANGED <<toggles, term>>

\* go back to the parent object: its answers must not have been disturbed by what happened to the child
Back ==
  /\ cur >= 2 /\ Len(hist) < Depth
  /\ cur' = objs[cur].parent
  /\ hist' = Append(hist, [act |-> "back", name |-> "back", arg |-> 0, obj |-> objs[cur].parent, den |-> <<>>])
  /\ UNCHANGED <<objs, toggles, term>>

Toggle(ti) ==
  /\ cur >= 1 /\ Len(hist) < Depth - 1 /\ Toggles[ti] \notin toggles
  /\ toggles' = toggles \cup {Toggles[ti]}
  /\ hist' = Append(hist, [act |-> "toggle", name |-> Toggles[ti], arg |-> 0, obj |-> cur, den |-> <<>>])
  /\ UNCHANGED <<objs, cur, term>>

\* ---- the derived-then-parent family: [toggle,] derive d, query X on the derived object, back, query Y on the parent.  Derived operators
\*      share sub-operators and cached tensors with their parent; what is computed for the child must not disturb the parent's answers.
\*      (Too deep for the breadth-first bound, so these histories are emitted directly.) ------------------------------------------------
FamX == {qi \in 1..Len(Queries) : Queries[qi][1] \in {"cholesky", "root_decomposition", "root_inv_decomposition", "diagonalization", "svd", "eigh",
                                                        "logdet", "solve", "inv_quad_logdet", "sample"} /\ Queries[qi][2] = 0}
FamY == FamX \cup {qi \in 1..Len(Queries) : Queries[qi][1] \in {"to_dense", "diagonal"}}
FamilyStep ==
  /\ FamilyOn /\ cur = 1 /\ hist = <<>>
  /\ \E di \in 1..Len(Derivs), qx \in FamX, qy \in FamY, tg \in BOOLEAN :
       LET d == Derivs[di] o == objs[1] den2 == DerivedDen(d, o.den)
           pre == IF tg THEN <<[act |-> "toggle", name |-> "max_cholesky_size_0", arg |-> 0, obj |-> 1, den |-> <<>>]>> ELSE <<>>
           h == pre \o <<[act |-> "derive", name |-> d, arg |-> 0, obj |-> 2, den |-> den2],
                         [act |-> "query", name |-> Queries[qx][1], arg |-> 0, obj |-> 2, den |-> <<>>],
                         [act |-> "back", name |-> "back", arg |-> 0, obj |-> 1, den |-> <<>>],
                         [act |-> "query", name |-> Queries[qy][1], arg |-> 0, obj |-> 1, den |-> <<>>]>>
       IN /\ d \in {"add_jitter", "add_diagonal", "mul", "transpose", "expand", "add_low_rank"}
          /\ (d = "expand" => Len(T_Batch(o.den.shape)) = 0)
          /\ PrintT(ToJson([chk |-> "C12", inst |-> Inst, cls |-> InstCls[Inst], term |-> term, dense |-> o.den, steps |-> h]))
          /\ hist' = h
  /\ UNCHANGED <<objs, cur, toggles, term>>

Next == Construct
        \/ FamilyStep
        \/ \E qi \in 1..Len(Queries) : Query(qi)
        \/ \E di \in 1..Len(Derivs) : Derive(di)
        \/ \E ti \in 1..Len(Toggles) : Toggle(ti)
        \/ Back
Spec == Init /\ [][Next]_vars

\* ---- invariants -------------------------------------------------------------------------------------
\* every cache entry belongs to the object that holds it
CacheOwned == \A i \in 1..Len(objs) : \A e \in objs[i].cache : e.of = i
\* whatever query maps to an entry's key is correctly answered by that entry (key discipline of memoize)
CacheValid == \A i \in 1..Len(objs) : \A e \in objs[i].cache :
                \A qi \in 1..Len(Queries) : KeyOf(Queries[qi]) = e.key => SemOk(Queries[qi][1], e.arg, Queries[qi][2])
\* denotations of existing objects never change (frame condition, also C13)
DenStable == [][\A i \in 1..Len(objs) : objs'[i].den = objs[i].den]_vars

EmitInv == (Emit /\ Len(hist) = Depth) =>
  PrintT(ToJson([chk |-> "C12", inst |-> Inst, cls |-> InstCls[Inst], term |-> term, dense |-> objs[1].den, steps |-> hist]))
=============================================================================
