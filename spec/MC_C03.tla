------------------------------ MODULE MC_C03 ------------------------------
(***************************************************************************)
(* C03 - indexing and diagonal extraction match torch indexing.            *)
(*                                                                         *)
(* Mode "model":  for every shape in Shapes and every index tuple built     *)
(*   from the item kinds below, TLC checks the refinement                   *)
(*       M-layer shape of __getitem__  =  shape of the S-layer result       *)
(*   (InvRefine) and that an int -> slice conversion selects exactly one    *)
(*   element (InvIntSlice).  FixedNeg = FALSE is the pinned code and is     *)
(*   violated by any negative int ending in -1 at a matrix position.        *)
(* Mode "replay": for every operator class, an instance is built and a      *)
(*   chunk of index tuples is applied; the expected value of op[idx] (and   *)
(*   of diagonal()) is logged for the conformance replay.                   *)
(***************************************************************************)
EXTENDS LOGen, LOIndex, Json

CONSTANTS Tier, Seed, Part, NParts, Mode, FixedNeg, FixedAbs

VARIABLES desc, term, dense, pc, hist
vars == <<desc, term, dense, pc, hist>>
Quick == Tier = "quick"

\* ---- item kinds -----------------------------------------------------------
NK == 17
Item(k, sz) ==
  CASE k = 1 -> Ix_Int(0)
    [] k = 2 -> Ix_Int(-1)
    [] k = 3 -> Ix_Int(sz - 1)
    [] k = 4 -> Ix_Full
    [] k = 5 -> Ix_Sl(1, Ix_None, Ix_None)
    [] k = 6 -> Ix_Sl(Ix_None, -1, Ix_None)
    [] k = 7 -> Ix_Sl(Ix_None, Ix_None, 2)
    [] k = 8 -> Ix_Sl(0, sz, Ix_None)
    [] k = 9 -> Ix_Sl(-2, Ix_None, Ix_None)
    [] k = 10 -> Ix_Sl(0, 10, Ix_None)
    [] k = 11 -> Ix_Ten([shape |-> <<2>>, data |-> <<sz - 1, 0>>])
    [] k = 12 -> Ix_Ten([shape |-> <<2>>, data |-> <<-1, -sz>>])         \* both ends of the negative range
    [] k = 13 -> Ix_List([shape |-> <<2>>, data |-> <<0, sz - 1>>])
    [] k = 14 -> Ix_T0(-1)
    [] k = 15 -> Ix_Ten([shape |-> <<2, 1>>, data |-> <<0, sz - 1>>])
    [] k = 16 -> Ix_Ten([shape |-> <<1, 2>>, data |-> <<-1, 0>>])
    \* a stepped slice whose span is not a multiple of the step (the number of selected elements rounds UP)
    [] k = 17 -> Ix_Sl(1, Ix_None, 2)

ItemOk(k, sz) == (k \in (5..10) \cup {17} => Ix_SlLen(Item(k, sz), sz) >= 1)

\* the property admits rank >= 2 tensors only when at least two positions carry tensors and a matrix position is among them
TupleOk(ks, shape) ==
  /\ \A i \in 1..Len(ks) : ItemOk(ks[i], shape[i])
  /\ LET r == Len(ks) hi == {i \in 1..r : ks[i] \in {15, 16}} ten == {i \in 1..r : ks[i] \in {11, 12, 13, 15, 16}}
     IN hi # {} => (Cardinality(ten) >= 2 /\ (\E i \in ten : i >= r - 1))

Tuple(ks, shape) == [i \in 1..Len(ks) |-> Item(ks[i], shape[i])]

\* a few ellipsis forms per rank: (..., x), (x, ...), (x, ..., y), (...,)
EllTuples(shape) ==
  LET r == Len(shape) IN
  { <<Ix_Ell, Item(k, shape[r])>> : k \in {2, 5, 11} } \cup { <<Item(k, shape[1]), Ix_Ell>> : k \in {2, 7, 12} }
  \cup { <<Item(2, shape[1]), Ix_Ell, Item(3, shape[r])>>, <<Ix_Ell>>, <<Item(6, shape[1])>> }

EllSeq(shape) ==
  LET r == Len(shape) IN
  << <<Ix_Ell, Item(2, shape[r])>>, <<Ix_Ell, Item(5, shape[r])>>, <<Ix_Ell, Item(11, shape[r])>>,
     <<Item(2, shape[1]), Ix_Ell>>, <<Item(7, shape[1]), Ix_Ell>>, <<Item(12, shape[1]), Ix_Ell>>,
     <<Item(2, shape[1]), Ix_Ell, Item(3, shape[r])>>, <<Ix_Ell>>, <<Item(6, shape[1])>> >>

(***************************************************************************)
(* Mode "model"                                                            *)
(***************************************************************************)
Shapes == IF Quick THEN << <<3, 4>>, <<2, 3, 4>> >> ELSE << <<3, 4>>, <<2, 3, 4>>, <<1, 3>>, <<2, 2, 3, 3>> >>
KTuples(r) == [1..r -> 1..NK]

ModelInit ==
  /\ \E s \in 1..Len(Shapes) :
       \/ \E ks \in KTuples(Len(Shapes[s])) :
            /\ TupleOk(ks, Shapes[s])
            /\ desc = [shape |-> Shapes[s], idx |-> Tuple(ks, Shapes[s])]
       \/ \E t \in EllTuples(Shapes[s]) : desc = [shape |-> Shapes[s], idx |-> t]
  /\ term = <<>> /\ dense = <<>> /\ pc = 0 /\ hist = <<>>

\* one step so that the heavy evaluation happens in Next (parallel), not in Init
ModelEval ==
  /\ Mode = "model" /\ pc = 0 /\ pc' = 1
  /\ dense' = Ix_Result(T_Fill(desc.shape, 7, -3, 4), desc.idx)
  /\ UNCHANGED <<desc, term, hist>>

InvRefine == (Mode = "model" /\ pc = 1 /\ Ix_Valid(desc.shape, desc.idx))
               => Ix_ImplResultShape(desc.shape, desc.idx, FixedNeg, FixedAbs) = dense.shape
InvIntSlice == (Mode = "model" /\ pc = 0) =>
  LET f == Ix_Fill(desc.idx, Len(desc.shape)) r == Len(desc.shape)
  IN \A i \in (r - 1)..r : Ix_IsInt(f[i]) /\ Ix_InRange(f[i].a, desc.shape[i])
        => Ix_ImplIntSliceLen(f[i].a, desc.shape[i], FixedNeg) = 1
\* the two transcriptions of "advanced dims go to the front" agree with the S-layer rule
InvMoved == (Mode = "model" /\ pc = 0) =>
  LET f == Ix_Fill(desc.idx, Len(desc.shape)) g == Ix_DropInts(f)
  IN (Ix_TenPos(g) # {} /\ Len(g) >= 1) =>
       (Ix_ImplMovedToStart(g) <=> (~Ix_Adjacent(Ix_TenPos(g)) \/ 1 \in Ix_TenPos(g)))

(***************************************************************************)
(* Mode "replay"                                                           *)
(***************************************************************************)
Cls == <<"Dense", "User", "Diag", "ConstDiag", "Identity", "Zero", "Toeplitz", "Tri", "Chol", "Root", "LowRankRoot",
         "Kron", "KronTri", "KronDiag", "KronAddedDiag", "SumKron", "AddedDiag", "LRRAddedDiag", "Sum", "PsdSum",
         "Matmul", "Mul", "ConstMul", "BlockDiag", "BlockInter", "SumBatch", "BatchRepeat", "Cat", "Interp", "Masked",
         "Perm", "TransPerm", "Kernel", "SumInterp", "MatmulTri", "InterpRootSameIdx", "KernelM", "KronRect">>
RBatches == IF Quick THEN << <<>>, <<2>> >> ELSE << <<>>, <<2>>, <<2, 1>> >>
NChunks == IF Quick THEN 6 ELSE 24
DepthOf(c) == IF c \in G_LeafClasses THEN 0 ELSE 1
ModeOf(c) == IF c \in G_PsdOnly THEN 1 ELSE 0

Hash(ks) == LET RECURSIVE go(_, _) go(i, acc) == IF i > Len(ks) THEN acc ELSE go(i + 1, (acc * 17 + ks[i]) % 100003) IN go(1, 7)

ReplayInit ==
  /\ \E c \in 1..Len(Cls), bi \in 1..(Len(RBatches) + 1), ch \in 0..(NChunks - 1) :
       \* a batch of three only for the concatenation (pieces of unequal sizes along a batch dimension)
       /\ (bi = Len(RBatches) + 1 => Cls[c] = "Cat")
       /\ (Cls[c] = "TransPerm" => (RBatches \o << <<3>> >>)[bi] = <<>>)
       /\ ((c * 31 + bi * 7 + ch) % NParts = Part)
       /\ desc = [cls |-> Cls[c], b |-> (RBatches \o << <<3>> >>)[bi], chunk |-> ch, n |-> 4,
                  dt |-> IF Cls[c] \in {"Perm", "TransPerm"} \/ (c + ch) % 2 = 1 THEN "f32" ELSE "f64",
                  debug |-> (c + bi + ch) % 2, id |-> (c * 8 + bi) * 64 + ch,
                  seed |-> c * 13 + bi * 5 + ch]
  /\ term = <<>> /\ dense = <<>> /\ pc = 0 /\ hist = <<>>

\* index tuples are numbered 0 .. NK^r - 1 (digits = item kinds); negative codes -1 .. -9 are the ellipsis forms
RECURSIVE Pow(_, _)
Pow(x, k) == IF k = 0 THEN 1 ELSE x * Pow(x, k - 1)
KsOf(c, r) == [i \in 1..r |-> ((c \div Pow(NK, r - i)) % NK) + 1]
\* chunk selection: tuples whose hash falls into this chunk (quick: chunks partition a quarter of the space)
InChunk(ks) == LET h == Hash(ks) IN IF Quick THEN h % (4 * NChunks) = desc.chunk ELSE h % NChunks = desc.chunk

\* Behaviours are printed incrementally (one JSON line per action, keyed by the behaviour id) so that the state stays small:
\* `hist` holds the remaining work list and the number of steps logged so far.
Construct ==
  /\ Mode = "replay" /\ pc = 0 /\ pc' = 1
  /\ term' = G_Term(desc.cls, desc.n, desc.n, desc.b, desc.seed, DepthOf(desc.cls), ModeOf(desc.cls))
  /\ dense' = Op_Denote(term')
  /\ LET shape == dense'.shape r == Len(shape)
         selq == SelectSeq([c \in 1..Pow(NK, r) |-> c - 1],
                           LAMBDA c : InChunk(KsOf(c, r)) /\ TupleOk(KsOf(c, r), shape))
         ellq == IF desc.chunk = 0 THEN [i \in 1..9 |-> -i] ELSE <<>>
     IN hist' = [todo |-> selq \o ellq, n |-> 0]
  /\ PrintT(ToJson([chk |-> "C03", id |-> desc.id, k |-> 0, desc |-> desc, path |-> Op_Path(term'), term |-> term',
                    dense |-> dense']))
  /\ UNCHANGED desc

GetItem ==
  /\ Mode = "replay" /\ pc = 1 /\ Len(hist.todo) > 0
  /\ LET shape == dense.shape r == Len(shape) c == Head(hist.todo)
         ix == IF c >= 0 THEN Tuple(KsOf(c, r), shape) ELSE EllSeq(shape)[-c]
     IN PrintT(ToJson([id |-> desc.id, k |-> hist.n + 1, act |-> "getitem", arg |-> ix, expect |-> Ix_Result(dense, ix)]))
  /\ hist' = [todo |-> Tail(hist.todo), n |-> hist.n + 1]
  /\ UNCHANGED <<desc, term, dense, pc>>

Diagonal ==
  /\ Mode = "replay" /\ pc = 1 /\ Len(hist.todo) = 0 /\ pc' = 2
  /\ PrintT(ToJson([id |-> desc.id, k |-> hist.n + 1, act |-> "diagonal", arg |-> <<>>, expect |-> T_Diagonal(dense), last |-> TRUE]))
  /\ UNCHANGED <<desc, term, dense, hist>>

Init == IF Mode = "model" THEN ModelInit ELSE ReplayInit
Next == ModelEval \/ Construct \/ GetItem \/ Diagonal
Spec == Init /\ [][Next]_vars
=============================================================================
