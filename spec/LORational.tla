----------------------------- MODULE LORational -----------------------------
(***************************************************************************)
(* Exact linear algebra on small integer matrices: determinant, adjugate,  *)
(* and from them A^{-1}B, B^T A^{-1} B and det(A) as exact rationals        *)
(* (numerator tensor + one denominator per batch member).  This is the      *)
(* oracle of the solve / log-determinant / inverse-quadratic-form           *)
(* properties (C04, C05, C07, C11, C18): fraction-free, so TLC decides        *)
(* equality exactly; float comparisons happen only in the projection.       *)
(***************************************************************************)
EXTENDS LOTensor

\* 2-D matrices as sequences of rows
R_Rows(T, bi) == LET s == T.shape r == Len(s) m == s[r - 1] n == s[r]
                 IN [i \in 1..m |-> [j \in 1..n |-> T_At(T, bi \o <<i - 1, j - 1>>)]]
R_Minor(A, r, c) == [i \in 1..(Len(A) - 1) |-> [j \in 1..(Len(A) - 1) |-> A[IF i < r THEN i ELSE i + 1][IF j < c THEN j ELSE j + 1]]]
RECURSIVE R_Det(_)
R_Det(A) == IF Len(A) = 1 THEN A[1][1]
            ELSE IF Len(A) = 2 THEN A[1][1] * A[2][2] - A[1][2] * A[2][1]
            ELSE T_SumSeq([j \in 1..Len(A) |-> (IF j % 2 = 1 THEN 1 ELSE -1) * A[1][j] * R_Det(R_Minor(A, 1, j))])
R_Sgn(k) == IF k % 2 = 0 THEN 1 ELSE -1
R_Adj(A) == IF Len(A) = 1 THEN <<<<1>>>>
            ELSE [i \in 1..Len(A) |-> [j \in 1..Len(A) |-> R_Sgn(i + j) * R_Det(R_Minor(A, j, i))]]
R_MatMul(A, B) == [i \in 1..Len(A) |-> [j \in 1..Len(B[1]) |-> T_SumSeq([k \in 1..Len(B) |-> A[i][k] * B[k][j]])]]
R_Transpose(A) == [j \in 1..Len(A[1]) |-> [i \in 1..Len(A) |-> A[i][j]]]

\* all flat batch multi-indices of a batch shape
R_BatchIdx(b) == [k \in 1..T_Prod(b) |-> T_Unravel(k - 1, b)]

\* exact solve: A (.., n, n) and B (.., n, p) with broadcasting batch shapes.
\* Result: [shape, nums (flat row-major numerators), dens (one per flat batch member)]  with X[b] = nums[b] / dens[b]
R_Solve(A, B) ==
  LET ba == T_Batch(A.shape) bb == T_Batch(B.shape) bo == T_BShape(ba, bb)
      n == T_Last(A.shape) p == T_Last(B.shape)
      idxs == R_BatchIdx(bo)
      per == [k \in 1..Len(idxs) |->
                LET Ak == R_Rows(A, T_BIdx(idxs[k], ba)) Bk == R_Rows(B, T_BIdx(idxs[k], bb))
                IN [num |-> R_MatMul(R_Adj(Ak), Bk), den |-> R_Det(Ak)]]
  IN [shape |-> bo \o <<n, p>>,
      nums |-> [q \in 1..(Len(idxs) * n * p) |->
                  LET k == ((q - 1) \div (n * p)) + 1 rr == (((q - 1) % (n * p)) \div p) + 1 cc == ((q - 1) % p) + 1
                  IN per[k].num[rr][cc]],
      dens |-> [k \in 1..Len(idxs) |-> per[k].den]]

\* determinants per batch member (for log-determinants: log|A| = ln(det))
R_Dets(A) == LET ba == T_Batch(A.shape) idxs == R_BatchIdx(ba) IN [k \in 1..Len(idxs) |-> R_Det(R_Rows(A, idxs[k]))]

\* inverse quadratic form  tr(B^T A^{-1} B)  per batch member as <<num, den>>, and its per-column diagonal
R_InvQuad(A, B) ==
  LET ba == T_Batch(A.shape) bb == T_Batch(B.shape) bo == T_BShape(ba, bb) idxs == R_BatchIdx(bo) p == T_Last(B.shape)
  IN [k \in 1..Len(idxs) |->
        LET Ak == R_Rows(A, T_BIdx(idxs[k], ba)) Bk == R_Rows(B, T_BIdx(idxs[k], bb))
            Q == R_MatMul(R_Transpose(Bk), R_MatMul(R_Adj(Ak), Bk))
        IN [cols |-> [c \in 1..p |-> Q[c][c]], den |-> R_Det(Ak)]]
R_IsPD(A) == \A k \in 1..Len(A) : R_Det([i \in 1..k |-> [j \in 1..k |-> A[i][j]]]) > 0

\* ---- normalised rationals <<num, den>> (den > 0, gcd 1): used where the computation is iterative (pivoted Cholesky residuals) ----
RECURSIVE Q_Gcd(_, _)
Q_Gcd(a, b) == IF b = 0 THEN a ELSE Q_Gcd(b, a % b)
Q_Norm(q) == LET a == q[1] b == q[2]
                 s == IF b < 0 THEN -1 ELSE 1
                 g == Q_Gcd(T_Abs(a), T_Abs(b))
             IN IF a = 0 THEN <<0, 1>> ELSE <<(s * a) \div g, (s * b) \div g>>
Q_Int(a) == <<a, 1>>
Q_Add(x, y) == LET g == Q_Gcd(x[2], y[2]) IN Q_Norm(<<x[1] * (y[2] \div g) + y[1] * (x[2] \div g), (x[2] \div g) * y[2]>>)
Q_Neg(x) == <<-x[1], x[2]>>
Q_Sub(x, y) == Q_Add(x, Q_Neg(y))
Q_Mul(x, y) == LET g1 == Q_Gcd(T_Abs(x[1]), y[2]) g2 == Q_Gcd(T_Abs(y[1]), x[2])
               IN Q_Norm(<<(x[1] \div T_Max(1, g1)) * (y[1] \div T_Max(1, g2)), (x[2] \div T_Max(1, g2)) * (y[2] \div T_Max(1, g1))>>)
Q_Div(x, y) == Q_Mul(x, IF y[1] < 0 THEN <<-y[2], -y[1]>> ELSE <<y[2], y[1]>>)      \* y # 0
\* comparisons through the (gcd-reduced) difference: avoids the large cross products
Q_Less(x, y) == Q_Add(y, <<-x[1], x[2]>>)[1] > 0
Q_Leq(x, y) == Q_Add(y, <<-x[1], x[2]>>)[1] >= 0
Q_IsZero(x) == x[1] = 0
RECURSIVE Q_SumSeq(_)
Q_SumSeq(s) == IF Len(s) = 0 THEN <<0, 1>> ELSE Q_Add(s[1], Q_SumSeq(Tail(s)))
=============================================================================
