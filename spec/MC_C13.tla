------------------------------ MODULE MC_C13 ------------------------------
(***************************************************************************)
(* C13 - enumeration of (operation x argument role x layout x class) cases *)
(* for the conformance pass of the frame condition of LOFrame.tla: every    *)
(* case is one library call; the caller-owned cells are the tensors passed  *)
(* in the listed roles (in the given layouts) plus every tensor defining    *)
(* the operator; after the call each cell must have its version and bits.   *)
(* The abstract state is the version vector of the caller cells; the only   *)
(* action, Call, has the frame condition UNCHANGED ver.                     *)
(***************************************************************************)
EXTENDS LOGen, Json

CONSTANTS Tier, Seed

\* operator-level operations: [op, roles]
OpOps == << [op |-> "matmul", roles |-> <<"rhs">>], [op |-> "rmatmul", roles |-> <<"lhs">>],
            [op |-> "solve", roles |-> <<"rhs">>], [op |-> "solve_lhs", roles |-> <<"rhs", "lhs">>],
            [op |-> "inv_quad", roles |-> <<"rhs">>], [op |-> "inv_quad_logdet", roles |-> <<"rhs">>],
            [op |-> "sqrt_inv_matmul", roles |-> <<"rhs">>], [op |-> "sqrt_inv_matmul_lhs", roles |-> <<"rhs", "lhs">>],
            [op |-> "root_inv_decomposition_vecs", roles |-> <<"init", "test">>],
            [op |-> "add_diagonal", roles |-> <<"diag">>], [op |-> "add_low_rank", roles |-> <<"lowrank">>],
            [op |-> "cat_rows", roles |-> <<"cross", "new">>], [op |-> "getitem_tensor", roles |-> <<"index">>],
            [op |-> "getitem_tensor_neg", roles |-> <<"index_neg">>],
            [op |-> "mul_const", roles |-> <<"const">>], [op |-> "add_tensor", roles |-> <<"mat">>],
            [op |-> "noarg_queries", roles |-> <<>>],
            \* every explicitly named decomposition method; and the same on the operator scaled by 1e-9 (entries below the clamping thresholds 1e-7)
            [op |-> "methods", roles |-> <<>>], [op |-> "methods_tiny", roles |-> <<>>],
            \* probe vectors handed over through settings.deterministic_probes (stochastic log-determinant path)
            [op |-> "inv_quad_logdet_probes", roles |-> <<"rhs", "probes">>] >>
\* utilities: [op, roles]
UtilOps == << [op |-> "linear_cg", roles |-> <<"rhs", "guess">>], [op |-> "linear_cg_tridiag", roles |-> <<"rhs">>],
              [op |-> "minres", roles |-> <<"rhs", "shifts">>], [op |-> "lanczos_tridiag", roles |-> <<"init">>],
              [op |-> "psd_safe_cholesky", roles |-> <<"mat">>], [op |-> "psd_safe_cholesky_jitter", roles |-> <<"mat">>],
              [op |-> "stable_qr", roles |-> <<"mat">>], [op |-> "stable_pinverse", roles |-> <<"mat">>],
              [op |-> "toeplitz_matmul", roles |-> <<"col", "row", "rhs">>], [op |-> "sym_toeplitz_matmul", roles |-> <<"col", "rhs">>],
              [op |-> "sym_toeplitz_derivative_quadratic_form", roles |-> <<"rhs", "rhs2">>],
              [op |-> "left_interp", roles |-> <<"iidx", "ivals", "rhs">>], [op |-> "left_t_interp", roles |-> <<"iidx", "ivals", "rhs">>],
              [op |-> "apply_permutation", roles |-> <<"mat", "perm">>], [op |-> "inverse_permutation", roles |-> <<"perm">>],
              [op |-> "pivoted_cholesky_tensor", roles |-> <<"mat">>], [op |-> "sparse_utils", roles |-> <<"iidx", "ivals">>],
              [op |-> "contour_integral_quad", roles |-> <<"rhs">>] >>
Lay == <<"contig", "expanded", "transposed", "slice">>
Cls == <<"Dense", "Diag", "Toeplitz", "Chol", "Kron", "KronAddedDiag", "AddedDiag", "LRRAddedDiag", "BlockDiag", "BatchRepeat", "Sum",
         "ConstMul", "Root", "Interp", "PsdSum", "Identity", "KronDiag", "LRRAddedDiagI", "AddedDiagI", "SumI", "ConstDiag", "ConstMulI", "BlockDiagConstMulI", "AddedDiagRootI", "AddedDiagKronI", "CatICols", "CatIRows">>
Batches == << <<>>, <<2>> >>

VARIABLES case, ver, done
vars == <<case, ver, done>>

RECURSIVE LayoutSeqs(_)
LayoutSeqs(k) == IF k = 0 THEN {<<>>} ELSE {Append(s, l) : s \in LayoutSeqs(k - 1), l \in {Lay[i] : i \in 1..Len(Lay)}}

Quick == Tier = "quick"
Init ==
  /\ \/ \E o \in 1..Len(OpOps), c \in 1..Len(Cls), b \in 1..Len(Batches), cg \in {0, 1} : \E ls \in LayoutSeqs(Len(OpOps[o].roles)) :
          /\ (Quick => (o + c + b + cg) % 3 = 0)
          /\ case = [kind |-> "op", op |-> OpOps[o].op, roles |-> OpOps[o].roles, layouts |-> ls, cls |-> Cls[c], b |-> Batches[b], cg |-> cg,
                     term |-> <<>>, seed |-> o * 31 + c * 7 + b]
     \/ \E o \in 1..Len(UtilOps), b \in 1..Len(Batches) : \E ls \in LayoutSeqs(Len(UtilOps[o].roles)) :
          case = [kind |-> "util", op |-> UtilOps[o].op, roles |-> UtilOps[o].roles, layouts |-> ls, cls |-> "-", b |-> Batches[b], cg |-> 0,
                  term |-> <<>>, seed |-> o * 17 + b]
  /\ ver = [r \in 1..Len(case.roles) |-> 0] /\ done = FALSE

\* the call: frame condition on the caller cells
Call ==
  /\ ~done /\ done' = TRUE
  /\ UNCHANGED ver
  /\ LET t == IF case.kind = "op"
              THEN G_Term(case.cls, 4, 4, case.b, case.seed, IF case.cls \in G_LeafClasses THEN 0 ELSE 1, 1)
              ELSE <<>>
     IN /\ case' = [case EXCEPT !.term = t]
        /\ PrintT(ToJson(case'))
Next == Call
Spec == Init /\ [][Next]_vars
Frame == [][ver' = ver]_vars
=============================================================================
