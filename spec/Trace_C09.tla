----------------------------- MODULE Trace_C09 -----------------------------
(***************************************************************************)
(* Validation of executions recorded from lanczos_tridiag against the       *)
(* clauses of C09.  A trace is the sequence of executions of the same       *)
(* operator and start vectors with iteration budgets 1, 2, ..., n + 2; the  *)
(* basis must grow append-only from one budget to the next.  One total      *)
(* verdict per trace (names of the failed clauses); `drift` reports a       *)
(* number of basis vectors that differs from the control model's.           *)
(***************************************************************************)
EXTENDS LOLanczos, Json, IOUtils

Traces == JsonDeserialize(IOEnv.TRACE_FILE)
VARIABLES tid, l, fails, drift
vars == <<tid, l, fails, drift>>
Tr == Traces[tid]
Add(fs, ok, name) == IF ok THEN fs ELSE Append(fs, name)
Init == tid \in 1..Len(Traces) /\ l = 0 /\ fails = <<>> /\ drift = FALSE

Step ==
  /\ l < Len(Tr.runs)
  /\ LET run == Tr.runs[l + 1] cfg == Tr.cfg m == run.m tag == "@" \o ToString(m)
         \* once a member's Krylov space is exhausted the iteration continues on re-orthogonalised round-off ("restart"), which the loop
         \* itself only controls to its tolerance 1e-5: the clauses are then demanded at 1e-4 (lg = -13288)
         thr == IF m <= cfg.dmin \/ LZ_Thr(cfg.f32) > -13288 THEN LZ_Thr(cfg.f32) ELSE -13288
         ctl == [n |-> cfg.n, max_iter |-> m, d |-> cfg.d]
     IN IF ~run.ok THEN fails' = Append(fails, "raises" \o tag) /\ drift' = drift
        ELSE LET f1 == Add(fails, run.shape_ok, "shape" \o tag)
                 f2 == Add(f1, run.finite, "non-finite" \o tag)
                 f3 == Add(f2, run.r >= 1 /\ run.r <= Min2(m, cfg.n), "more-vectors-than-budget" \o tag)
                 \* fewer vectors than budget and exact Krylov dimension allow: only with evidence of (numerical) breakdown, i.e. every
                 \* coupling coefficient of the last step at the code's absolute threshold 1e-6 (lg = -19932; factor 2 for the recorder)
                 f4 == Add(f3, run.r >= LZ_Ideal(ctl) \/ run.lastabs <= -18932, "stops-before-budget-without-breakdown" \o tag)
                 f5 == Add(f4, run.tsym, "T-not-symmetric-tridiagonal" \o tag)
                 f6 == Add(f5, run.finite => run.ortho <= thr, "basis-not-orthonormal" \o tag)
                 f7 == Add(f6, run.finite => run.proj <= thr, "T-is-not-the-projection" \o tag)
                 f8 == Add(f7, run.finite => run.resid <= thr, "residual-outside-last-column" \o tag)
                 \* the basis spans an invariant subspace: the whole space, or the Krylov space itself (demanded from floating point only
                 \* for small Krylov dimensions, where the Krylov basis is well conditioned)
                 f9 == Add(f8, (run.finite /\ (run.r = cfg.n \/ (run.r = cfg.d /\ cfg.dmin = cfg.d /\ cfg.d <= 6))) => run.last <= thr + 6644, "not-exact-on-krylov-space" \o tag)   \* x100
                 f10 == Add(f9, run.finite => run.prefix <= thr, "basis-not-append-only" \o tag)
                 \* eigendecomposition of T with negative Ritz values masked = positive part of T
                 f11 == Add(f10, run.finite => run.post <= thr, "postprocessing-of-T" \o tag)
             IN fails' = f11 /\ drift' = (drift \/ run.r # LZ_Ideal(ctl))
  /\ l' = l + 1 /\ UNCHANGED tid

Finish ==
  /\ l = Len(Tr.runs)
  /\ PrintT(ToJson([tid |-> Tr.tid, fails |-> fails, drift |-> drift]))
  /\ l' = l + 1 /\ UNCHANGED <<tid, fails, drift>>
Next == Step \/ Finish
Spec == Init /\ [][Next]_vars
=============================================================================
