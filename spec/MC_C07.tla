------------------------------ MODULE MC_C07 ------------------------------
(***************************************************************************)
(* C07 - class x batch x nesting: the term, its exact dense matrix and the  *)
(* exact Jacobian dA / d(leaf entry) for every floating leaf (one JSON line *)
(* per leaf).  mode "psd" draws from the positive-definite families (for    *)
(* solve / inv_quad / logdet / roots), mode "any" from the general ones     *)
(* (matmul, to_dense, diagonal, indexing, sums, _bilinear_derivative).      *)
(***************************************************************************)
EXTENDS LOGen, LOGrad, Json
CONSTANTS Tier, Seed, Part, NParts
VARIABLES desc, term, todo, pc
vars == <<desc, term, todo, pc>>

AnyCls == <<"Dense", "Diag", "ConstDiag", "Toeplitz", "Tri", "Chol", "Root", "LowRankRoot", "Kron", "Kron3", "KronAddedDiag", "SumKron", "AddedDiag", "LRRAddedDiag",
            "Sum", "PsdSum", "Matmul", "Mul", "ConstMul", "BlockDiag", "BlockInter", "SumBatch", "BatchRepeat", "Cat", "Interp", "Masked", "SumInterp", "MatmulTri", "User", "ConstMulBc", "KernelM">>
PsdCls == <<"Dense", "Diag", "ConstDiag", "Toeplitz", "Chol", "Root", "Kron", "KronAddedDiag", "SumKron", "AddedDiag", "LRRAddedDiag", "Sum", "PsdSum", "Mul", "ConstMul",
            "BlockDiag", "BlockInter", "BatchRepeat", "ConstMulBc">>
Batches == << <<>>, <<2>>, <<2, 1>>, <<3, 2>> >>
DepthOf(c) == IF c \in G_LeafClasses THEN 0 ELSE 1

Init ==
  /\ \E mode \in {"any", "psd"}, ci \in 1..31, bi \in 1..Len(Batches), dp \in {0, 1} :
       LET cls == IF mode = "any" THEN AnyCls[ci] ELSE PsdCls[ci] IN
       /\ ci <= (IF mode = "any" THEN Len(AnyCls) ELSE Len(PsdCls))
       /\ ((ci + bi + dp) % NParts = Part)
       /\ (dp = 1 => cls \notin G_LeafClasses)                     \* dp = 1: one more level of nesting
       \* the two-dimensional batch <<3, 2>> only for the class whose constant broadcasts along the inner batch dimension
       /\ (bi = 4 <=> cls = "ConstMulBc")
       /\ (Tier = "quick" => ((bi <= 2 \/ bi = 4) /\ (dp = 0 \/ (ci + bi) % 3 = 0)))
       /\ desc = [mode |-> mode, cls |-> cls, b |-> Batches[bi], depth |-> DepthOf(cls) + dp, n |-> IF mode = "psd" THEN 3 ELSE 3, m |-> IF mode = "any" /\ cls \notin G_SquareOnly /\ (ci % 2 = 0) THEN 2 ELSE 3,
                  seed |-> ci * 11 + bi * 3 + dp, id |-> ((IF mode = "any" THEN 0 ELSE 1) * 64 + ci) * 16 + bi * 2 + dp]
  /\ term = <<>> /\ todo = <<>> /\ pc = "build"

Build ==
  /\ pc = "build"
  /\ term' = G_Term(desc.cls, desc.m, desc.n, desc.b, desc.seed, desc.depth, IF desc.mode = "psd" THEN 1 ELSE 0)
  /\ todo' = GR_Leaves(term', <<>>)
  /\ pc' = "leaves"
  /\ PrintT(ToJson([chk |-> "C07", kind |-> "case", id |-> desc.id, desc |-> desc, path |-> Op_Path(term'), term |-> term', dense |-> Op_Denote(term'),
                    nleaves |-> Len(todo')]))
  /\ UNCHANGED desc
Leaf ==
  /\ pc = "leaves" /\ Len(todo) > 0
  /\ LET lf == Head(todo) IN
       PrintT(ToJson([chk |-> "C07", kind |-> "leaf", id |-> desc.id, path |-> lf.path, ti |-> lf.ti, shape |-> lf.shape, tri |-> lf.tri,
                      jac |-> [k \in 1..lf.numel |-> GR_Jac(term, lf, k)]]))
  /\ todo' = Tail(todo) /\ UNCHANGED <<desc, term, pc>>
Next == Build \/ Leaf
Spec == Init /\ [][Next]_vars

\* the central difference is exact: differences are even and the third difference vanishes (checked on the first entry of the leaf at the head of the work list)
InvExactDifference == (pc = "leaves" /\ Len(todo) > 0) => (GR_Even(term, Head(todo), 1) /\ GR_Quadratic(term, Head(todo), 1))
InvSymmetricPsd == (pc = "leaves" /\ desc.mode = "psd") => T_IsSymmetric(Op_Denote(term))
=============================================================================
