----------------------------- MODULE LOPivChol -----------------------------
(***************************************************************************)
(* C10 - pivoted Cholesky as a state machine in exact rational arithmetic.  *)
(*                                                                         *)
(* functions/_pivoted_cholesky.py keeps, per batch member, the residual     *)
(* diagonal, the permutation and the rows of L; its loop runs all members   *)
(* in lockstep and leaves when the step budget is used up or the relative   *)
(* residual trace of EVERY member is below the tolerance.  The abstract     *)
(* state here is the residual matrix S = A - L L^T itself (the Schur        *)
(* complement of the chosen pivots: rational whenever A is), so that        *)
(*   L L^T = A - S,  diag(S) is the code's matrix_diag,  tr(S) its error.   *)
(* One action = one iteration of the while loop:                            *)
(*   every member picks a remaining index of maximal residual diagonal      *)
(*   (ties: any of them - torch.max does not promise an order),             *)
(*   S' = S - s s^T / s_pp  with  s = S[:, p].                              *)
(* Invariants (the property): S stays positive semi-definite, vanishes on   *)
(* the rows / columns of the pivots, its trace never increases, it is zero  *)
(* after n steps, each pivot was a maximiser, and the loop leaves early     *)
(* only when all relative residual traces are <= tol.                       *)
(* Variant # "code" are realistic slips that must violate an invariant.     *)
(***************************************************************************)
EXTENDS LORational, Sequences, FiniteSets

CONSTANTS PcVariant      \* "code" | "first_remaining" (no pivoting) | "absolute_tol" (tolerance not relative) | "any_member" (leaves when ONE member converged)

\* ---- rational matrices: sequences of rows of <<num, den>> ----
PC_FromInt(A) == [i \in 1..Len(A) |-> [j \in 1..Len(A) |-> Q_Int(A[i][j])]]
PC_Diag(S) == [i \in 1..Len(S) |-> S[i][i]]
PC_Step(S, p) ==   \* Schur step on pivot p (1-based), S[p][p] > 0
  [i \in 1..Len(S) |-> [j \in 1..Len(S) |->
      IF i = p \/ j = p THEN <<0, 1>> ELSE Q_Sub(S[i][j], Q_Div(Q_Mul(S[i][p], S[p][j]), S[p][p]))]]
PC_Remaining(n, piv) == {i \in 1..n : \A k \in 1..Len(piv) : piv[k] # i}
PC_Trace(S, rem) == Q_SumSeq([i \in 1..Len(S) |-> IF i \in rem THEN S[i][i] ELSE <<0, 1>>])
PC_MaxOver(S, rem) == CHOOSE v \in {S[i][i] : i \in rem} : \A i \in rem : Q_Leq(S[i][i], v)
PC_Argmax(S, rem) == {i \in rem : \A j \in rem : Q_Leq(S[j][j], S[i][i])}
PC_Min(S) == CHOOSE i \in S : \A j \in S : i <= j

\* state of one member
\* the matrix handed to the library is (1 / sden) * A.  Everything the algorithm decides is invariant under that scaling (pivot order,
\* relative residual trace), so the state keeps the unscaled residual; only a variant that compares an ABSOLUTE quantity sees sden
PC_Member(A, sden) == [S |-> PC_FromInt(A), sden |-> sden, piv |-> <<>>, orig |-> PC_MaxOver(PC_FromInt(A), 1..Len(A)), deg |-> FALSE,
                 lastval |-> <<0, 1>>, lastmax |-> <<0, 1>>, err |-> <<1, 1>>, nvalid |-> 0, errs |-> <<>>]

\* one loop iteration for one member with pivot p
PC_Advance(mem, p) ==
  LET n == Len(mem.S) rem == PC_Remaining(n, mem.piv)
      zero == Q_IsZero(mem.S[p][p]) \/ mem.deg
      S2 == IF zero THEN mem.S ELSE PC_Step(mem.S, p)
      piv2 == Append(mem.piv, p)
      rem2 == rem \ {p}
  IN [S |-> S2, sden |-> mem.sden, piv |-> piv2, orig |-> mem.orig,
      deg |-> zero,                                            \* a zero pivot: L is no longer defined by the algorithm (0 / 0)
      lastval |-> mem.S[p][p], lastmax |-> PC_MaxOver(mem.S, rem),
      nvalid |-> IF zero THEN mem.nvalid ELSE mem.nvalid + 1,       \* number of pivots taken on a positive residual
      errs |-> Append(mem.errs, IF rem2 = {} THEN mem.err ELSE Q_Div(PC_Trace(S2, rem2), mem.orig)),
      \* the code refreshes `errors` only while another row remains (m + 1 < n)
      err |-> IF rem2 = {} THEN mem.err
              ELSE IF PcVariant = "absolute_tol" THEN Q_Div(PC_Trace(S2, rem2), Q_Int(mem.sden)) ELSE Q_Div(PC_Trace(S2, rem2), mem.orig)]

PC_Cands(mem) ==
  LET rem == PC_Remaining(Len(mem.S), mem.piv)
  IN IF PcVariant = "first_remaining" THEN {PC_Min(rem)} ELSE PC_Argmax(mem.S, rem)

\* the relative residual traces after 1, 2, ... steps of one (deterministically tie-broken) greedy run: used to place tolerances
\* strictly between two consecutive values, which pins the step at which the loop must leave
RECURSIVE PC_RunAll(_, _)
PC_RunAll(mem, steps) == IF steps = 0 THEN mem ELSE PC_RunAll(PC_Advance(mem, PC_Min(PC_Argmax(mem.S, PC_Remaining(Len(mem.S), mem.piv)))), steps - 1)
PC_ErrSeq(A) == PC_RunAll(PC_Member(A, 1), Len(A)).errs
PC_Mid(x, y) == Q_Div(Q_Add(x, y), <<2, 1>>)

\* loop guard: (m == 0) or (m < max_iter and max(errors) > tol)
PC_Continue(mems, m, maxiter, tol) ==
  \/ m = 0
  \/ /\ m < maxiter
     /\ IF PcVariant = "any_member" THEN \A b \in 1..Len(mems) : Q_Less(tol, mems[b].err)
        ELSE \E b \in 1..Len(mems) : Q_Less(tol, mems[b].err)

\* ---- invariants on a member ----
PC_ZeroOnPivots(mem) == \A k \in 1..Len(mem.piv) : \A j \in 1..Len(mem.S) : Q_IsZero(mem.S[mem.piv[k]][j]) /\ Q_IsZero(mem.S[j][mem.piv[k]])
PC_Psd2(mem) == LET S == mem.S n == Len(S) IN
  /\ \A i \in 1..n : 0 <= S[i][i][1]
  /\ \A i, j \in 1..n : i < j => Q_Leq(Q_Mul(S[i][j], S[j][i]), Q_Mul(S[i][i], S[j][j]))
  /\ \A i, j \in 1..n : S[i][j] = S[j][i]
PC_Greedy(mem) == mem.deg \/ mem.lastval = mem.lastmax
PC_ExactAtFull(mem) == (Len(mem.piv) = Len(mem.S) /\ ~mem.deg) => \A i, j \in 1..Len(mem.S) : Q_IsZero(mem.S[i][j])
=============================================================================
