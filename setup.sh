#!/bin/bash
# Offline setup: nothing to build; verify the tools the checks need are present.
set -e
cd "$(dirname "$0")"
mkdir -p .work evidence
java -version >/dev/null 2>&1
test -f /opt/veriftools/tla/tla2tools.jar
/venv/bin/python -c "import torch, sys; sys.path.insert(0, '/repo'); import linear_operator" >/dev/null 2>&1
echo "setup ok"
